"""Number theories of the symbolic executor.

BITS : iN = python int | z3 BitVec(N); float/double = raw IEEE bits (int | BitVec 32/64)
INT  : iN = python int | IntV(z3 Int term, machine value = term mod 2^N);
       float/double = Fraction | z3 Real  (the "exact reading", REAL mode of DESIGN.md 2.4)
i1 is python 0/1 or a z3 Bool in both modes.
"""
import struct
from fractions import Fraction
import z3
import numpy as np

np.seterr(all='ignore')


def MASK(b):
    return (1 << b) - 1


def sgn(x, b):
    return x - (1 << b) if (x >> (b - 1)) & 1 else x


# n-ary flattening in z3's simplifier: an AC normaliser for products (wanted: b^13 vs square-and-multiply is
# decided syntactically) but exponential on repeated squaring with a symbolic exponent (b^(2^k) -> 2^k factors);
# units with such chains switch it off (cfg.flat = False) and use the 'bvsat' solver pipeline
FLAT = [True]


class Inconclusive(Exception):
    pass


class Ptr:
    __slots__ = ('obj', 'off')

    def __init__(s, obj, off):
        s.obj = obj
        s.off = off

    def __repr__(s):
        return f'Ptr({s.obj},{s.off})'


class PtrIte:
    """a pointer that is `a` when c holds and `b` otherwise (std::clamp/std::max return references)"""
    __slots__ = ('c', 'a', 'b')

    def __init__(s, c, a, b):
        s.c = c
        s.a = a
        s.b = b

    def map(s, f):
        return PtrIte(s.c, s.a.map(f) if isinstance(s.a, PtrIte) else f(s.a), s.b.map(f) if isinstance(s.b, PtrIte) else f(s.b))


class Agg:
    __slots__ = ('e',)

    def __init__(s, e):
        s.e = list(e)

    def __repr__(s):
        return f'Agg{s.e}'


class IntV:
    # lz: number of low bits known to be zero (value is a multiple of 2^lz); ub: value known to be < 2^ub.
    # Only used to turn `or` of disjoint bit ranges (clang packs two 32-bit coordinates into one register) into `add`.
    __slots__ = ('t', 'bits', 'norm', 'lz', 'ub', 'lazy')

    def __init__(s, t, bits, norm=False, lz=0, ub=None):
        s.lazy = None      # (object, offset term, size): an untyped read of a symbolic buffer, re-typed on first typed use
        s.t = t
        s.bits = bits
        s.norm = norm
        s.lz = lz
        s.ub = bits if ub is None else ub

    def __repr__(s):
        return f'i{s.bits}<{s.t}>'


class Bundle:
    """INT mode: a wide load covering several typed cells; may only be stored/copied."""
    __slots__ = ('parts', 'size')

    def __init__(s, parts, size):
        s.parts = parts
        s.size = size


def is_bool(v):
    return isinstance(v, z3.BoolRef)


def bool_and(a, b):
    if isinstance(a, int):
        return b if a else 0
    if isinstance(b, int):
        return a if b else 0
    return z3.And(a, b)


def bool_or(a, b):
    if isinstance(a, int):
        return 1 if a else b
    if isinstance(b, int):
        return 1 if b else a
    return z3.Or(a, b)


def bool_not(a):
    if isinstance(a, int):
        return 1 - (a & 1)
    return z3.Not(a)


def bool_xor(a, b):
    if isinstance(a, int):
        return bool_not(b) if a else b
    if isinstance(b, int):
        return bool_not(a) if b else a
    return z3.Xor(a, b)


def zbool(c):
    """python 0/1 | BoolRef -> BoolRef"""
    if isinstance(c, (int, bool)):
        return z3.BoolVal(bool(c))
    return c


def simp_bool(c):
    if isinstance(c, (int, bool)):
        return int(bool(c))
    c = z3.simplify(c, flat=FLAT[0])
    if z3.is_true(c):
        return 1
    if z3.is_false(c):
        return 0
    return c


# ----------------------------------------------------------------------------- concrete IEEE helpers
def f32_of_bits(b):
    return np.frombuffer(struct.pack('<I', b & 0xFFFFFFFF), dtype=np.float32)[0]


def f64_of_bits(b):
    return np.frombuffer(struct.pack('<Q', b & 0xFFFFFFFFFFFFFFFF), dtype=np.float64)[0]


def bits_of_f32(x):
    return struct.unpack('<I', np.float32(x).tobytes())[0]


def bits_of_f64(x):
    return struct.unpack('<Q', np.float64(x).tobytes())[0]


def fl_of_bits(b, kind):
    return f32_of_bits(b) if kind == 'float' else f64_of_bits(b)


def bits_of_fl(x, kind):
    return bits_of_f32(x) if kind == 'float' else bits_of_f64(x)


FSORT = {'float': z3.Float32(), 'double': z3.Float64()}
FBITS = {'float': 32, 'double': 64}
RNE = z3.RNE()
RTZ = z3.RTZ()


class Bits:
    name = 'BITS'
    real = False

    def __init__(s, eng):
        s.eng = eng

    # ---- ints
    def fresh(s, st, name, bits):
        return z3.BitVec(name, bits)

    def bv(s, v, bits):
        return z3.BitVecVal(v, bits) if isinstance(v, int) else v

    def term(s, st, v, bits):
        """z3 term denoting the machine value"""
        if isinstance(v, Ptr):
            raise Inconclusive('pointer used as data term')
        return s.bv(v, bits)

    def simp(s, v):
        # flat=False: n-ary flattening of bvmul turns b^(2^k) (repeated squaring) into 2^k factors
        v = z3.simplify(v, flat=FLAT[0])
        if z3.is_bv_value(v):
            return v.as_long()
        return v

    def binop(s, st, op, a, b, bits):
        M = MASK(bits)
        if isinstance(a, int) and isinstance(b, int):
            if op == 'add': return (a + b) & M
            if op == 'sub': return (a - b) & M
            if op == 'mul': return (a * b) & M
            if op == 'and': return a & b
            if op == 'or': return a | b
            if op == 'xor': return a ^ b
            if op == 'shl': return (a << b) & M if b < bits else 0
            if op == 'lshr': return a >> b if b < bits else 0
            if op == 'ashr': return (sgn(a, bits) >> min(b, bits - 1)) & M
            if op == 'udiv': return a // b
            if op == 'urem': return a % b
            if op == 'sdiv':
                x, y = sgn(a, bits), sgn(b, bits)
                q = abs(x) // abs(y)
                return (q if (x < 0) == (y < 0) else -q) & M
            if op == 'srem':
                x, y = sgn(a, bits), sgn(b, bits)
                r = abs(x) % abs(y)
                return (r if x >= 0 else -r) & M
            raise Inconclusive('binop ' + op)
        # cheap identities keep terms small
        if isinstance(b, int):
            if b == 0 and op in ('add', 'sub', 'or', 'xor', 'shl', 'lshr', 'ashr'): return a
            if b == 1 and op in ('mul', 'udiv'): return a
            if b == 0 and op in ('mul', 'and'): return 0
        if isinstance(a, int):
            if a == 0 and op in ('add', 'or', 'xor'): return b
            if a == 1 and op == 'mul': return b
            if a == 0 and op in ('mul', 'and', 'shl', 'lshr'): return 0
        x, y = s.bv(a, bits), s.bv(b, bits)
        if op == 'add': r = x + y
        elif op == 'sub': r = x - y
        elif op == 'mul': r = x * y
        elif op == 'and': r = x & y
        elif op == 'or': r = x | y
        elif op == 'xor': r = x ^ y
        elif op == 'shl': r = x << y
        elif op == 'lshr': r = z3.LShR(x, y)
        elif op == 'ashr': r = x >> y
        elif op == 'udiv': r = z3.UDiv(x, y)
        elif op == 'urem': r = z3.URem(x, y)
        elif op == 'sdiv': r = x / y
        elif op == 'srem': r = z3.SRem(x, y)
        else: raise Inconclusive('binop ' + op)
        return s.simp(r)

    def icmp(s, st, pred, a, b, bits):
        if isinstance(a, int) and isinstance(b, int):
            if pred[0] == 's':
                a, b = sgn(a, bits), sgn(b, bits)
            return int({'eq': a == b, 'ne': a != b, 'ult': a < b, 'ule': a <= b, 'ugt': a > b, 'uge': a >= b,
                        'slt': a < b, 'sle': a <= b, 'sgt': a > b, 'sge': a >= b}[pred])
        x, y = s.bv(a, bits), s.bv(b, bits)
        c = {'eq': lambda: x == y, 'ne': lambda: x != y, 'ult': lambda: z3.ULT(x, y), 'ule': lambda: z3.ULE(x, y),
             'ugt': lambda: z3.UGT(x, y), 'uge': lambda: z3.UGE(x, y), 'slt': lambda: x < y, 'sle': lambda: x <= y,
             'sgt': lambda: x > y, 'sge': lambda: x >= y}[pred]()
        return simp_bool(c)

    def zext(s, st, v, fb, nb):
        if isinstance(v, int): return v
        return s.simp(z3.ZeroExt(nb - fb, v))

    def sext(s, st, v, fb, nb):
        if isinstance(v, int): return sgn(v, fb) & MASK(nb)
        return s.simp(z3.SignExt(nb - fb, v))

    def trunc(s, st, v, fb, nb):
        if isinstance(v, int): return v & MASK(nb)
        return s.simp(z3.Extract(nb - 1, 0, v))

    def ite(s, st, c, a, b, bits):
        if isinstance(c, int): return a if c else b
        if isinstance(a, int) and isinstance(b, int) and a == b: return a
        return z3.If(c, s.bv(a, bits), s.bv(b, bits))

    def b2i(s, c, bits, signed=False):
        if isinstance(c, int): return (MASK(bits) if signed else 1) if c else 0
        return z3.If(c, z3.BitVecVal(MASK(bits) if signed else 1, bits), z3.BitVecVal(0, bits))

    def i2b(s, st, v, bits):
        if isinstance(v, int): return v & 1
        return simp_bool(z3.Extract(0, 0, v) == 1)

    def umulo(s, st, a, b, bits):
        if isinstance(a, int) and isinstance(b, int):
            p = a * b
            return p & MASK(bits), int(p > MASK(bits))
        x, y = s.bv(a, bits), s.bv(b, bits)
        return s.simp(x * y), simp_bool(z3.Not(z3.BVMulNoOverflow(x, y, False)))

    def addo(s, st, op, a, b, bits):
        """(u|s)(add|sub|mul).with.overflow except umul"""
        sg = op[0] == 's'
        kind = op[1:]
        if isinstance(a, int) and isinstance(b, int):
            x, y = (sgn(a, bits), sgn(b, bits)) if sg else (a, b)
            r = {'add': x + y, 'sub': x - y, 'mul': x * y}[kind]
            lo, hi = (-(1 << (bits - 1)), (1 << (bits - 1)) - 1) if sg else (0, MASK(bits))
            return r & MASK(bits), int(r < lo or r > hi)
        x, y = s.bv(a, bits), s.bv(b, bits)
        w = bits * 2 if kind == 'mul' else bits + 1
        ex = (lambda v: z3.SignExt(w - bits, v)) if sg else (lambda v: z3.ZeroExt(w - bits, v))
        wide = {'add': ex(x) + ex(y), 'sub': ex(x) - ex(y), 'mul': ex(x) * ex(y)}[kind]
        res = {'add': x + y, 'sub': x - y, 'mul': x * y}[kind]
        ov = wide != ex(res)
        return s.simp(res), simp_bool(ov)

    def intrin_int(s, st, name, args, bits):
        a = args[0]
        if name in ('umax', 'umin', 'smax', 'smin'):
            b = args[1]
            pred = {'umax': 'ugt', 'umin': 'ult', 'smax': 'sgt', 'smin': 'slt'}[name]
            return s.ite(st, s.icmp(st, pred, a, b, bits), a, b, bits)
        if name == 'ctpop':
            if isinstance(a, int): return bin(a).count('1')
            r = z3.BitVecVal(0, bits)
            for i in range(bits):
                r = r + z3.ZeroExt(bits - 1, z3.Extract(i, i, a))
            return s.simp(r)
        if name in ('ctlz', 'cttz'):
            if isinstance(a, int):
                if a == 0: return bits
                if name == 'ctlz': return bits - a.bit_length()
                return (a & -a).bit_length() - 1
            r = z3.BitVecVal(bits, bits)
            rng = range(bits) if name == 'ctlz' else range(bits - 1, -1, -1)
            for i in rng:
                n = (bits - 1 - i) if name == 'ctlz' else i
                r = z3.If(z3.Extract(i, i, a) == 1, z3.BitVecVal(n, bits), r)
            return s.simp(r)
        if name == 'pdep64':
            return s.pdep(a, args[1])
        if name == 'bswap':
            if isinstance(a, int):
                return int.from_bytes(a.to_bytes(bits // 8, 'little'), 'big')
            return s.simp(z3.Concat(*[z3.Extract(8 * i + 7, 8 * i, a) for i in range(bits // 8)]))
        if name == 'abs':
            return s.ite(st, s.icmp(st, 'slt', a, 0, bits), s.binop(st, 'sub', 0, a, bits), a, bits)
        if name in ('fshl', 'fshr'):
            # funnel shift of the concatenation a:b by c mod bits
            b, c = args[1], args[2]
            if not isinstance(c, int): raise Inconclusive('funnel shift by a symbolic amount')
            c %= bits
            if c == 0: return a if name == 'fshl' else b
            if name == 'fshl':
                return s.binop(st, 'or', s.binop(st, 'shl', a, c, bits), s.binop(st, 'lshr', b, bits - c, bits), bits)
            return s.binop(st, 'or', s.binop(st, 'shl', a, bits - c, bits), s.binop(st, 'lshr', b, c, bits), bits)
        raise Inconclusive('int intrinsic ' + name)

    def pdep(s, src, mask):
        """Intel SDM pseudo-code of PDEP r64"""
        if not isinstance(mask, int):
            raise Inconclusive('pdep with symbolic mask')
        if isinstance(src, int):
            r = 0; k = 0
            for m in range(64):
                if (mask >> m) & 1:
                    r |= ((src >> k) & 1) << m
                    k += 1
            return r
        parts = []
        k = 0
        for m in range(64):
            if (mask >> m) & 1:
                parts.append(z3.Extract(k, k, src)); k += 1
            else:
                parts.append(z3.BitVecVal(0, 1))
        return s.simp(z3.Concat(*reversed(parts)))

    # ---- floats (raw bits)
    def fconst(s, pyfloat, kind):
        return bits_of_fl(pyfloat, kind)

    def fp(s, v, kind):
        return z3.fpBVToFP(s.bv(v, FBITS[kind]), FSORT[kind])

    def fbits(s, f):
        return s.simp(z3.fpToIEEEBV(f))

    def fbin(s, st, op, a, b, kind):
        if isinstance(a, int) and isinstance(b, int):
            x, y = fl_of_bits(a, kind), fl_of_bits(b, kind)
            r = {'fadd': lambda: x + y, 'fsub': lambda: x - y, 'fmul': lambda: x * y, 'fdiv': lambda: x / y}[op]()
            return bits_of_fl(r, kind)
        x, y = s.fp(a, kind), s.fp(b, kind)
        r = {'fadd': z3.fpAdd, 'fsub': z3.fpSub, 'fmul': z3.fpMul, 'fdiv': z3.fpDiv}[op](RNE, x, y)
        return s.fbits(r)

    def fneg(s, st, a, kind):
        n = FBITS[kind]
        return s.binop(st, 'xor', a, 1 << (n - 1), n)

    def fcmp(s, st, pred, a, b, kind):
        if pred == 'true': return 1
        if pred == 'false': return 0
        if isinstance(a, int) and isinstance(b, int):
            x, y = fl_of_bits(a, kind), fl_of_bits(b, kind)
            un = bool(np.isnan(x) or np.isnan(y))
            if pred == 'ord': return int(not un)
            if pred == 'uno': return int(un)
            base = {'eq': x == y, 'ne': x != y, 'lt': x < y, 'le': x <= y, 'gt': x > y, 'ge': x >= y}[pred[1:]]
            if pred[0] == 'o': return int((not un) and bool(base))
            return int(un or bool(base))
        x, y = s.fp(a, kind), s.fp(b, kind)
        un = z3.Or(z3.fpIsNaN(x), z3.fpIsNaN(y))
        if pred == 'ord': return simp_bool(z3.Not(un))
        if pred == 'uno': return simp_bool(un)
        base = {'eq': lambda: z3.fpEQ(x, y), 'ne': lambda: z3.Not(z3.fpEQ(x, y)), 'lt': lambda: z3.fpLT(x, y),
                'le': lambda: z3.fpLEQ(x, y), 'gt': lambda: z3.fpGT(x, y), 'ge': lambda: z3.fpGEQ(x, y)}[pred[1:]]()
        if pred[0] == 'o': return simp_bool(z3.And(z3.Not(un), base))
        return simp_bool(z3.Or(un, base))

    def fcast(s, st, op, v, fk, tk, fbits_, tbits):
        """fk/tk: 'float'/'double'/'int'"""
        if op == 'fpext' or op == 'fptrunc':
            if isinstance(v, int): return bits_of_fl(fl_of_bits(v, fk), tk)
            return s.fbits(z3.fpFPToFP(RNE, s.fp(v, fk), FSORT[tk]))
        if op in ('uitofp', 'sitofp'):
            if isinstance(v, int):
                x = v if op == 'uitofp' else sgn(v, fbits_)
                return bits_of_fl(np.float32(x) if tk == 'float' else np.float64(x), tk)
            f = z3.fpUnsignedToFP if op == 'uitofp' else z3.fpSignedToFP
            return s.fbits(f(RNE, v, FSORT[tk]))
        if op in ('fptoui', 'fptosi'):
            if isinstance(v, int):
                x = fl_of_bits(v, fk)
                if np.isnan(x) or np.isinf(x): return 0
                return int(np.trunc(x)) & MASK(tbits)
            f = z3.fpToUBV if op == 'fptoui' else z3.fpToSBV
            return s.simp(f(RTZ, s.fp(v, fk), z3.BitVecSort(tbits)))
        raise Inconclusive('fcast ' + op)

    def fintr(s, st, name, a, kind, rbits=64):
        n = FBITS[kind]
        if name == 'fabs':
            return s.binop(st, 'and', a, MASK(n - 1), n)
        if name in ('trunc', 'floor', 'ceil', 'rint', 'nearbyint', 'round'):
            if isinstance(a, int):
                x = fl_of_bits(a, kind)
                r = {'trunc': np.trunc, 'floor': np.floor, 'ceil': np.ceil, 'rint': np.rint, 'nearbyint': np.rint,
                     'round': lambda q: np.copysign(np.floor(np.abs(q) + type(q)(0.5)), q)}[name](x)
                return bits_of_fl(r, kind)
            rm = {'trunc': z3.RTZ(), 'floor': z3.RTN(), 'ceil': z3.RTP(), 'rint': RNE, 'nearbyint': RNE, 'round': z3.RNA()}[name]
            return s.fbits(z3.fpRoundToIntegral(rm, s.fp(a, kind)))
        if name == 'lrint':
            # default rounding mode (FE_TONEAREST): round to nearest even, then convert
            if isinstance(a, int):
                x = fl_of_bits(a, kind)
                if np.isnan(x) or np.isinf(x): return 1 << (rbits - 1)
                return int(np.rint(x)) & MASK(rbits)
            return s.simp(z3.fpToSBV(RNE, s.fp(a, kind), z3.BitVecSort(rbits)))
        raise Inconclusive('fp intrinsic ' + name)

    def fselect(s, st, c, a, b, kind):
        return s.ite(st, c, a, b, FBITS[kind])

    def fminmax(s, st, which, a, b, kind):
        """C fmin/fmax (llvm.minnum/maxnum): if one operand is NaN the other is returned"""
        an = s.fcmp(st, 'uno', a, a, kind); bn = s.fcmp(st, 'uno', b, b, kind)
        lt = s.fcmp(st, 'olt', a, b, kind)
        pick_a = lt if which == 'min' else s.fcmp(st, 'ogt', a, b, kind)
        r = s.fselect(st, pick_a, a, b, kind)
        r = s.fselect(st, bn, a, r, kind)
        r = s.fselect(st, an, b, r, kind)
        return r

    def fundef(s, st, name, kind):
        return z3.BitVec(name, FBITS[kind])

    # ---- pointers: offsets are int | BitVec(64)
    def off_add(s, st, off, idx, ibits, scale):
        if isinstance(idx, int):
            d = sgn(idx, ibits) * scale
            if isinstance(off, int):
                return (off + d) & MASK(64)
            return s.simp(off + z3.BitVecVal(d, 64)) if d else off
        if ibits < 64:
            idx = z3.SignExt(64 - ibits, idx)
        return s.simp(s.bv(off, 64) + idx * z3.BitVecVal(scale, 64))

    def off_conc(s, off):
        if isinstance(off, int):
            return sgn(off, 64)
        return None

    def inb(s, off, sz, objsize):
        """in-bounds condition as z3 Bool (off symbolic and/or objsize symbolic)"""
        o = s.bv(off, 64)
        S = s.bv(objsize, 64)
        return z3.And(z3.ULE(o, S), z3.ULE(z3.BitVecVal(sz, 64), S - o), S >= 0)

    def off_eq(s, off, k):
        return s.bv(off, 64) == z3.BitVecVal(k, 64)

    def off_term(s, off):
        return s.bv(off, 64)

    def size_term(s, st, v):
        return v

    # ---- bytes
    def to_bytes(s, v, sz):
        if isinstance(v, Ptr):
            return [('pb', v, i) for i in range(sz)]
        if isinstance(v, int):
            return [(v >> (8 * i)) & 255 for i in range(sz)]
        if is_bool(v):
            v = s.b2i(v, 8 * sz)
        return [s.simp(z3.Extract(8 * i + 7, 8 * i, v)) for i in range(sz)]

    def from_bytes(s, bs):
        if isinstance(bs[0], tuple):
            p = bs[0][1]
            if len(bs) == 8 and all(isinstance(b, tuple) and b[1] is p and b[2] == i for i, b in enumerate(bs)):
                return p
            raise Inconclusive('pointer bytes reinterpreted')
        if any(isinstance(b, tuple) for b in bs):
            raise Inconclusive('pointer bytes mixed with data')
        if all(isinstance(b, int) for b in bs):
            return sum(b << (8 * i) for i, b in enumerate(bs))
        return s.simp(z3.Concat(*[s.bv(b, 8) for b in reversed(bs)])) if len(bs) > 1 else bs[0]

    def undef(s, st, name, sz):
        return z3.BitVec(name, 8 * sz)

    def mval(s, m, v, bits=None):
        if isinstance(v, int): return v
        r = m.eval(v, model_completion=True)
        if z3.is_bv_value(r): return r.as_long()
        if z3.is_true(r): return 1
        if z3.is_false(r): return 0
        return str(r)


class Ints:
    """INT/REAL mode (DESIGN.md 2.4, appendix D)."""
    name = 'INT'
    real = True

    def __init__(s, eng):
        s.eng = eng

    def fresh(s, st, name, bits):
        x = z3.Int(name)
        st.pc.append(z3.And(x >= 0, x < (1 << bits)))
        return IntV(x, bits, True)

    # unsigned / signed representatives
    def U(s, st, v):
        if isinstance(v, int): return v
        if isinstance(v, Ptr): raise Inconclusive('pointer used in integer arithmetic')
        if v.norm: return v.t
        k = v.t.get_id()
        c = st.norm.get(k)
        if c is not None: return c
        r = s.eng.check(st, z3.Or(v.t < 0, v.t >= (1 << v.bits)))
        if r == 'unsat':
            st.norm[k] = v.t
            return v.t
        t = v.t % (1 << v.bits)
        st.norm[k] = t
        return t

    def S(s, st, v):
        if isinstance(v, int): return sgn(v, v.bit_length() if False else 64)
        u = s.U(st, v)
        h = 1 << (v.bits - 1)
        r = s.eng.check(st, u >= h)
        if r == 'unsat': return u
        return z3.If(u >= h, u - (1 << v.bits), u)

    def Sv(s, st, v, bits):
        if isinstance(v, int): return sgn(v, bits)
        return s.S(st, v)

    def term(s, st, v, bits):
        if isinstance(v, int): return z3.IntVal(v)
        if isinstance(v, IntV): return s.U(st, v)
        if isinstance(v, Fraction): return z3.RealVal(str(v))
        return v

    def mk(s, t, bits, norm=False):
        if isinstance(t, int): return t % (1 << bits)
        if z3.is_int_value(t): return t.as_long() % (1 << bits)
        return IntV(t, bits, norm)

    def raw(s, v):
        return v if isinstance(v, int) else v.t

    def binop(s, st, op, a, b, bits):
        if isinstance(a, int) and isinstance(b, int):
            return Bits.binop(s, st, op, a, b, bits)
        if isinstance(a, Ptr) or isinstance(b, Ptr):
            raise Inconclusive('pointer arithmetic in INT mode')
        if isinstance(b, int):
            if b == 0 and op in ('add', 'sub', 'or', 'xor', 'shl', 'lshr', 'ashr'): return a
            if b == 1 and op in ('mul', 'udiv', 'sdiv'): return a
        if isinstance(a, int):
            if a == 0 and op in ('add', 'or', 'xor'): return b
            if a == 1 and op == 'mul': return b
        if op in ('add', 'sub', 'mul'):
            x, y = s.raw(a), s.raw(b)
            if op == 'mul' and ((isinstance(x, int) and x == 0) or (isinstance(y, int) and y == 0)): return 0
            r = {'add': lambda: x + y, 'sub': lambda: x - y, 'mul': lambda: x * y}[op]()
            return s.mk(r, bits)
        if op == 'shl' and isinstance(b, int):
            if b >= bits: return 0
            r = s.mk(s.raw(a) * (1 << b), bits)
            if isinstance(r, IntV): r.lz = b + (a.lz if isinstance(a, IntV) else 0)
            return r
        if op == 'or':
            # disjoint bit ranges: x*2^k | y with y < 2^k  ==  x*2^k + y
            for x, y in ((a, b), (b, a)):
                lzx = x.lz if isinstance(x, IntV) else ((x & -x).bit_length() - 1 if x else 64)
                uby = (y.ub if (y.norm or isinstance(y.t, int)) else bits) if isinstance(y, IntV) else y.bit_length()
                if lzx >= uby:
                    return s.mk(s.raw(x) + s.raw(y), bits)
        ua, ub = s.U(st, a), s.U(st, b)
        if op == 'lshr' and isinstance(ub, int):
            return s.mk(ua / (1 << ub), bits, True) if ub < bits else 0
        if op == 'ashr' and isinstance(ub, int):
            sa = s.S(st, a)
            return s.mk(sa / (1 << ub), bits)   # z3 Int div is floor for positive divisor
        if op == 'and' and isinstance(ub, int) and (ub & (ub + 1)) == 0:
            r = s.mk(ua % (ub + 1), bits, True)
            if isinstance(r, IntV): r.ub = ub.bit_length()
            return r
        if op == 'and' and isinstance(ua, int) and (ua & (ua + 1)) == 0:
            r = s.mk(ub % (ua + 1), bits, True)
            if isinstance(r, IntV): r.ub = ua.bit_length()
            return r
        if op == 'and' and isinstance(ub, int) and ub & (ub - 1) == 0:
            k = ub.bit_length() - 1
            return s.mk(((ua / (1 << k)) % 2) * ub, bits, True)
        if op == 'udiv': return s.mk(ua / ub, bits, True)
        if op == 'urem': return s.mk(ua % ub, bits, True)
        if op in ('sdiv', 'srem'):
            x, y = s.Sv(st, a, bits), s.Sv(st, b, bits)
            ax = z3.If(x >= 0, x, -x) if not isinstance(x, int) else abs(x)
            ay = z3.If(y >= 0, y, -y) if not isinstance(y, int) else abs(y)
            q = ax / ay
            if op == 'sdiv':
                same = (x >= 0) == (y >= 0) if not (isinstance(x, int) and isinstance(y, int)) else None
                return s.mk(z3.If(same, q, -q), bits)
            r = ax % ay
            return s.mk(z3.If(x >= 0, r, -r), bits)
        raise Inconclusive(f'INT mode cannot represent {op} on symbolic operands')

    def icmp(s, st, pred, a, b, bits):
        if isinstance(a, int) and isinstance(b, int):
            return Bits.icmp(s, st, pred, a, b, bits)
        if pred[0] == 's':
            x, y = s.Sv(st, a, bits), s.Sv(st, b, bits)
        else:
            x, y = s.U(st, a), s.U(st, b)
        p = pred if pred in ('eq', 'ne') else pred[1:]
        c = {'eq': lambda: x == y, 'ne': lambda: x != y, 'lt': lambda: x < y, 'le': lambda: x <= y,
             'gt': lambda: x > y, 'ge': lambda: x >= y}[p]()
        return simp_bool(c)

    def zext(s, st, v, fb, nb):
        if isinstance(v, int): return v
        return IntV(s.U(st, v), nb, True, ub=fb)

    def sext(s, st, v, fb, nb):
        if isinstance(v, int): return sgn(v, fb) & MASK(nb)
        return s.mk(s.S(st, v), nb)

    def trunc(s, st, v, fb, nb):
        if isinstance(v, int): return v & MASK(nb)
        return s.mk(v.t, nb)

    def ite(s, st, c, a, b, bits):
        if isinstance(c, int): return a if c else b
        if isinstance(a, int) and isinstance(b, int) and a == b: return a
        na = isinstance(a, int) or a.norm
        nb_ = isinstance(b, int) or b.norm
        return IntV(z3.If(c, s.raw(a), s.raw(b)), bits, na and nb_)

    def b2i(s, c, bits, signed=False):
        if isinstance(c, int): return (MASK(bits) if signed else 1) if c else 0
        return IntV(z3.If(c, MASK(bits) if signed else 1, 0), bits, True)

    def i2b(s, st, v, bits):
        if isinstance(v, int): return v & 1
        return simp_bool(s.U(st, v) % 2 == 1)

    def umulo(s, st, a, b, bits):
        if isinstance(a, int) and isinstance(b, int):
            p = a * b
            return p & MASK(bits), int(p > MASK(bits))
        p = s.U(st, a) * s.U(st, b)
        return s.mk(p, bits), simp_bool(p >= (1 << bits))

    def addo(s, st, op, a, b, bits):
        sg = op[0] == 's'
        kind = op[1:]
        if isinstance(a, int) and isinstance(b, int):
            return Bits.addo(s, st, op, a, b, bits)
        x, y = (s.Sv(st, a, bits), s.Sv(st, b, bits)) if sg else (s.U(st, a), s.U(st, b))
        r = {'add': lambda: x + y, 'sub': lambda: x - y, 'mul': lambda: x * y}[kind]()
        lo, hi = (-(1 << (bits - 1)), (1 << (bits - 1)) - 1) if sg else (0, MASK(bits))
        return s.mk(r, bits), simp_bool(z3.Or(r < lo, r > hi))

    def intrin_int(s, st, name, args, bits):
        if all(isinstance(a, int) for a in args):
            return Bits.intrin_int(s, st, name, args, bits)
        if name in ('umax', 'umin', 'smax', 'smin'):
            a, b = args
            pred = {'umax': 'ugt', 'umin': 'ult', 'smax': 'sgt', 'smin': 'slt'}[name]
            return s.ite(st, s.icmp(st, pred, a, b, bits), a, b, bits)
        raise Inconclusive('INT mode int intrinsic ' + name)

    pdep = Bits.pdep

    # ---- floats as reals
    def fconst(s, pyfloat, kind):
        return Fraction(pyfloat)

    def rterm(s, v):
        if isinstance(v, Fraction): return z3.RealVal(str(v))
        if isinstance(v, int): return z3.RealVal(v)
        return v

    def fbin(s, st, op, a, b, kind):
        if isinstance(a, Fraction) and isinstance(b, Fraction):
            return {'fadd': lambda: a + b, 'fsub': lambda: a - b, 'fmul': lambda: a * b, 'fdiv': lambda: a / b}[op]()
        if op == 'fmul':
            if a == 0 or b == 0: return Fraction(0)
            if a == 1: return b
            if b == 1: return a
        if op in ('fadd',) and a == 0: return b
        if op in ('fadd', 'fsub') and b == 0: return a
        x, y = s.rterm(a), s.rterm(b)
        if op == 'fdiv':
            if s.eng.check(st, y == 0) != 'unsat':
                raise Inconclusive('REAL mode: division by a possibly-zero term')
        return {'fadd': lambda: x + y, 'fsub': lambda: x - y, 'fmul': lambda: x * y, 'fdiv': lambda: x / y}[op]()

    def fneg(s, st, a, kind):
        return -a

    def fcmp(s, st, pred, a, b, kind):
        if pred == 'true': return 1
        if pred == 'false': return 0
        if pred == 'ord': return 1
        if pred == 'uno': return 0
        p = pred[1:]
        if isinstance(a, Fraction) and isinstance(b, Fraction):
            return int({'eq': a == b, 'ne': a != b, 'lt': a < b, 'le': a <= b, 'gt': a > b, 'ge': a >= b}[p])
        x, y = s.rterm(a), s.rterm(b)
        return simp_bool({'eq': lambda: x == y, 'ne': lambda: x != y, 'lt': lambda: x < y, 'le': lambda: x <= y,
                          'gt': lambda: x > y, 'ge': lambda: x >= y}[p]())

    def fcast(s, st, op, v, fk, tk, fbits_, tbits):
        if op in ('fpext', 'fptrunc'):
            return v
        if op in ('uitofp', 'sitofp'):
            if isinstance(v, int):
                return Fraction(v if op == 'uitofp' else sgn(v, fbits_))
            x = s.U(st, v) if op == 'uitofp' else s.S(st, v)
            return z3.ToReal(x)
        if op in ('fptoui', 'fptosi'):
            if isinstance(v, Fraction):
                return int(v) % (1 << tbits)      # int() truncates toward zero
            sh = st.shape.get(v.get_id())
            if sh is not None:
                return s.mk(sh[0], tbits, True) if not isinstance(sh[0], int) else sh[0]
            t = z3.If(v >= 0, z3.ToInt(v), -z3.ToInt(-v))
            return s.mk(t, tbits)
        raise Inconclusive('fcast ' + op)

    def fintr(s, st, name, a, kind, rbits=64):
        if name == 'fabs':
            if isinstance(a, Fraction): return abs(a)
            return z3.If(a >= 0, a, -a)
        if name == 'trunc':
            if isinstance(a, Fraction): return Fraction(int(a))
            sh = st.shape.get(a.get_id())
            if sh is not None:
                return z3.ToReal(sh[0]) if not isinstance(sh[0], int) else Fraction(sh[0])
            return z3.ToReal(z3.If(a >= 0, z3.ToInt(a), -z3.ToInt(-a)))
        if name == 'floor':
            if isinstance(a, Fraction): return Fraction(a.__floor__())
            return z3.ToReal(z3.ToInt(a))
        raise Inconclusive('REAL mode fp intrinsic ' + name)

    def fselect(s, st, c, a, b, kind):
        if isinstance(c, int): return a if c else b
        return z3.If(c, s.rterm(a), s.rterm(b))

    def fminmax(s, st, which, a, b, kind):
        c = s.fcmp(st, 'olt' if which == 'min' else 'ogt', a, b, kind)
        return s.fselect(st, c, a, b, kind)

    def fundef(s, st, name, kind):
        return z3.Real(name)

    # ---- pointers: offsets are int | z3 Int (mathematical, signed)
    def off_add(s, st, off, idx, ibits, scale):
        if isinstance(idx, int):
            return off + sgn(idx, ibits) * scale
        return off + s.S(st, idx) * scale

    def off_conc(s, off):
        if isinstance(off, int): return off
        off = z3.simplify(off)
        if z3.is_int_value(off): return off.as_long()
        return None

    def inb(s, off, sz, objsize):
        return z3.And(off >= 0, off + sz <= objsize)

    def off_eq(s, off, k):
        return off == k

    def off_term(s, off):
        return z3.IntVal(off) if isinstance(off, int) else off

    def size_term(s, st, v):
        return s.U(st, v)

    def to_bytes(s, v, sz):
        if isinstance(v, int):
            return [(v >> (8 * i)) & 255 for i in range(sz)]
        raise Inconclusive('INT mode: byte-level access to a symbolic value')

    def from_bytes(s, bs):
        if all(isinstance(b, int) for b in bs):
            return sum(b << (8 * i) for i, b in enumerate(bs))
        raise Inconclusive('INT mode: byte-level assembly of symbolic data')

    def undef(s, st, name, sz):
        return s.fresh(st, name, 8 * sz)

    def mval(s, m, v, bits=None):
        if isinstance(v, int): return v
        if isinstance(v, Fraction): return str(v)
        if isinstance(v, IntV):
            r = m.eval(v.t, model_completion=True)
            return r.as_long() % (1 << v.bits)
        r = m.eval(v, model_completion=True)
        if z3.is_int_value(r): return r.as_long()
        if z3.is_rational_value(r): return f'{r.numerator_as_long()}/{r.denominator_as_long()}'
        if z3.is_true(r): return 1
        if z3.is_false(r): return 0
        if z3.is_algebraic_value(r): return r.approx(20).as_decimal(20)
        return str(r)
