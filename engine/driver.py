"""Property check driver: ./check <id> [--tier quick|thorough] [--replay path]   (DESIGN.md 2.5-2.11)"""
import sys, os, json, time, re, subprocess, struct, hashlib, traceback, argparse, shutil
from fractions import Fraction
from multiprocessing.pool import ThreadPool as Pool
sys.path.insert(0, os.path.dirname(os.path.abspath(__file__)))
sys.setrecursionlimit(100000)
import frontend
from frontend import Frontend, VERIF, REPO

EVID = os.environ.get('VF_EVIDENCE_DIR') or os.path.join(VERIF, 'evidence')   # VF_EVIDENCE_DIR: seed evaluations write elsewhere
KNOWN = os.path.join(VERIF, 'known_findings.json')
FE = None

NATIVE_FLAGS = {
    'rel': ('-O2', '-g', '-DNDEBUG'),
    'dbg': ('-O0', '-g'),
    'asan': ('-O1', '-g', '-DNDEBUG', '-fsanitize=address,undefined', '-fno-sanitize-recover=all', '-fno-omit-frame-pointer'),
    'asan_dbg': ('-O0', '-g', '-fsanitize=address,undefined', '-fno-sanitize-recover=all', '-fno-omit-frame-pointer'),
    'vg': ('-O1', '-g', '-DNDEBUG'),
    'tsan': ('-O1', '-g', '-DNDEBUG', '-fsanitize=thread', '-pthread'),
    'clang_ubsan': ('CLANG', '-O1', '-g', '-DNDEBUG', '-fsanitize=undefined', '-fno-sanitize-recover=all', '-fno-sanitize=vptr,function'),
    'clang_ubsan_dbg': ('CLANG', '-O0', '-g', '-fsanitize=undefined', '-fno-sanitize-recover=all', '-fno-sanitize=vptr,function'),
}


# ------------------------------------------------------------------------------------------------ values for replay files
def to_bits(kind, v):
    """model value -> u64 bit pattern for the replay file"""
    if isinstance(v, int):
        return v & 0xFFFFFFFFFFFFFFFF
    if isinstance(v, str):
        try:
            fr = Fraction(v)
        except Exception:
            try:
                fr = Fraction(float(v.rstrip('?')))
            except Exception:
                return 0
        if kind in ('f32', 'unit_f32'):
            return struct.unpack('<I', struct.pack('<f', float(fr)))[0]
        return struct.unpack('<Q', struct.pack('<d', float(fr)))[0]
    return 0


def write_replay(path, inputs, ufs, mode):
    os.makedirs(os.path.dirname(path), exist_ok=True)
    lines = []
    for i in inputs:
        k = i['kind']
        v = i['value']
        if i.get('bits'):
            b = v
        elif mode != 'BITS' and k in ('f32', 'f64', 'unit_f32', 'unit_f64'):
            b = to_bits(k, v if isinstance(v, str) else str(v))
        else:
            b = to_bits(k, v)
        lines.append(f'in {k} {b}')
    for u in ufs:
        name = u['uf']
        rk = 'f32' if '_f32' in name else 'f64' if '_f64' in name else 'u64'
        realargs = name.endswith('r')
        args = []
        n = len(u['args'])
        for j, a in enumerate(u['args']):
            if mode != 'BITS' and realargs and j < n - 1:
                args.append(to_bits('f64', a if isinstance(a, str) else str(a)))
            else:
                args.append(to_bits('u64', a))
        val = u['value']
        if mode != 'BITS' and rk != 'u64':
            val = to_bits(rk, val if isinstance(val, str) else str(val))
        else:
            val = to_bits(rk, val)
        lines.append(f'uf {name} {n} ' + ' '.join(map(str, args)) + f' {val}')
    with open(path, 'w') as f:
        f.write('\n'.join(lines) + '\n')


def run_native(exe, replay, valgrind=False, timeout=120):
    env = dict(os.environ, VF_REPLAY=replay, ASAN_OPTIONS='detect_leaks=0:abort_on_error=0:allocator_may_return_null=1',
               UBSAN_OPTIONS='print_stacktrace=0:halt_on_error=1')
    cmd = [exe]
    if valgrind:
        cmd = ['valgrind', '-q', '--error-exitcode=9', '--track-origins=no', exe]
    try:
        r = subprocess.run(cmd, stdout=subprocess.PIPE, stderr=subprocess.PIPE, text=True, env=env, timeout=timeout, errors='replace')
        return r.returncode, r.stdout, r.stderr
    except subprocess.TimeoutExpired as e:
        return -999, (e.stdout or b'').decode(errors='replace') if isinstance(e.stdout, bytes) else (e.stdout or ''), 'TIMEOUT'


# ------------------------------------------------------------------------------------------------ worker
def c20_ast(fe):
    """clang's JSON AST of static_permutation.hpp from the scratch copy (regenerated on every run)"""
    out = os.path.join(fe.dir, 'static_permutation.ast.json')
    with fe.lock(out):
        if not os.path.exists(out):
            src = os.path.join(fe.dir, 'sp.cpp')
            open(src, 'w').write('#include <covfie/core/utility/static_permutation.hpp>\n')
            cmd = ['clang++-14', '-std=c++20', '-fsyntax-only', '-Xclang', '-ast-dump=json', '-Xclang',
                   '-ast-dump-filter=covfie::utility'] + fe.includes() + [src]
            r = subprocess.run(cmd, stdout=open(out + '.tmp', 'w'), stderr=subprocess.PIPE, text=True)
            if r.returncode != 0:
                return None, r.stderr
            # clang's pretty printer: normalised text of variable templates (fold operators are not in the JSON dump)
            cmd2 = ['clang++-14', '-std=c++20', '-fsyntax-only', '-Xclang', '-ast-print', '-Xclang',
                    '-ast-dump-filter=covfie::utility'] + fe.includes() + [src]
            subprocess.run(cmd2, stdout=open(out + '.print', 'w'), stderr=subprocess.PIPE, text=True)
            os.rename(out + '.tmp', out)
    return out, ''


def work_c20(spec):
    t0 = time.time()
    fe = FE
    ast, diag = c20_ast(fe)
    base = {'name': spec['name'], 'harness': 'static_permutation.hpp (clang AST)', 'inst': spec['inst'], 'flavour': 'ast',
            'mode': 'TEMPLATE', 'spec': spec}
    if ast is None:
        ok, gd, gc = g20_compiles(fe)
        r = dict(base, verdict='inconclusive' if ok else 'illformed', inconclusive=['clang cannot build the AST: ' + first_error(diag)] if ok else [],
                 failures=[] if ok else [{'kind': 'ILL-FORMED', 'what': first_error(gd), 'site': None, 'inputs': [], 'ufs': []}],
                 n_failures=0 if ok else 1, asserts={}, paths=0, instrs=0, queries={}, solver_s=0, wall_s=0, functions=[], externals=[], traces=[])
        return r
    op = os.path.join(fe.dir, spec['name'] + '.out.json')
    args = [sys.executable, os.path.join(os.path.dirname(os.path.abspath(__file__)), 'tmpl.py'), ast] + spec['args'] + [op]
    try:
        p = subprocess.run(args, stdout=subprocess.PIPE, stderr=subprocess.PIPE, text=True, timeout=spec.get('timeout', 900))
        if p.returncode == 0 and os.path.exists(op):
            r = json.load(open(op))
        else:
            r = {'verdict': 'inconclusive', 'inconclusive': [f'template evaluator failed rc={p.returncode}: {p.stderr[-300:]}'], 'failures': [],
                 'n_failures': 0, 'asserts': {}, 'paths': 0, 'instrs': 0, 'queries': {}, 'solver_s': 0, 'functions': [], 'externals': [], 'traces': []}
    except subprocess.TimeoutExpired:
        r = {'verdict': 'inconclusive', 'inconclusive': ['template evaluator exceeded its wall-clock limit'], 'failures': [],
             'n_failures': 0, 'asserts': {}, 'paths': 0, 'instrs': 0, 'queries': {}, 'solver_s': 0, 'functions': [], 'externals': [], 'traces': []}
    r.update(base)
    # The evaluator could not read the header's shape (a rewrite in a style its rule extractor does not know): the solver decides
    # nothing. A concrete instantiation sweep by g++ over a small alphabet is run INSTEAD OF giving up at once: a counterexample it
    # finds is a real one (instantiated by the real compiler) and is reported; finding none proves nothing - the unit stays inconclusive.
    if r.get('verdict') == 'inconclusive' and not r.get('failures') and any('template evaluator' in x for x in r.get('inconclusive', [])):
        f = c20_concrete_sweep(fe, spec)
        if f is not None:
            r['failures'] = [f]; r['n_failures'] = 1; r['verdict'] = 'fail'
            r['inconclusive'] = []
            r['fallback'] = 'concrete g++ instantiation sweep (evaluator could not read the header): counterexample only, no proof'
        else:
            r['inconclusive'].append('concrete g++ instantiation sweep over a small alphabet found no counterexample (proves nothing)')
    # differential validation: the witness of a proved leaf, instantiated by the real compiler
    r['diff'] = {'runs': 0, 'mismatches': []}
    for site, a in r.get('asserts', {}).items():
        w = a.get('witness')
        if isinstance(w, dict) and spec.get('diff'):
            ok, detail = c20_compile_check(fe, spec, w, expect_ok=True)
            r['diff']['runs'] += 1
            if not ok:
                r['diff']['mismatches'].append({'why': detail[:200], 'inputs': w})
                r.setdefault('inconclusive', []).append('differential validation: g++ disagrees with the evaluator on a witness: ' + detail[:200])
                if r['verdict'] == 'pass': r['verdict'] = 'inconclusive'
    r['wall_s'] = round(time.time() - t0, 2)
    if os.environ.get('VF_VERBOSE'):
        sys.stderr.write(f'[{r["wall_s"]:7.1f}s] {r["name"]}: {r["verdict"]} leaves={r["paths"]}\n')
    return r


def g20_compiles(fe):
    src = os.path.join(fe.dir, 'sp.cpp')
    r = subprocess.run(['g++', '-std=c++20', '-fsyntax-only'] + fe.includes(os.path.join(REPO, 'lib')) + [src], stdout=subprocess.PIPE, stderr=subprocess.STDOUT, text=True)
    return r.returncode == 0, r.stdout, ''


def c20_concrete_sweep(fe, spec):
    """fallback when the template evaluator cannot read the header: instantiate the real templates with every sequence over a small
    alphabet (g++), return the first counterexample as a failure record, or None"""
    import itertools
    M = 2 ** 64 - 1
    kind = spec['args'][0]
    cases = []
    if kind == 'sort':
        n = int(spec['args'][1])
        for ln in ([n, n + 1] if n >= 4 else [n]):
            for xs in itertools.product([0, 1, 7, M], repeat=ln):
                e = 'std::is_same_v<typename covfie::utility::sort_index_sequence<std::index_sequence<%s>>::type, std::index_sequence<%s>>' % (
                    ', '.join(f'{v}ul' for v in xs), ', '.join(f'{v}ul' for v in sorted(xs)))
                cases.append((list(xs), None, e))
    else:
        a, b = int(spec['args'][1]), int(spec['args'][2])
        for us in itertools.product([0, 3, M], repeat=a):
            for vs in itertools.product([0, 3, M], repeat=b):
                want = 'true' if sorted(us) == sorted(vs) else 'false'
                e = '(covfie::utility::is_permutation<std::index_sequence<%s>, std::index_sequence<%s>>::value == %s)' % (
                    ', '.join(f'{v}ul' for v in us), ', '.join(f'{v}ul' for v in vs), want)
                cases.append((list(us), list(vs), e))
    src = os.path.join(fe.dir, spec['name'] + '.sweep.cpp')
    exe = src[:-4]
    with open(src, 'w') as fh:
        fh.write('#include <covfie/core/utility/static_permutation.hpp>\n#include <type_traits>\n#include <utility>\n#include <cstdio>\n')
        fh.write('static constexpr bool R[] = {\n' + ',\n'.join(c[2] for c in cases) + '\n};\n')
        fh.write('int main() { for (unsigned i = 0; i < sizeof(R); i++) if (!R[i]) { std::printf("%u\\n", i); return 1; } return 0; }\n')
    try:
        r = subprocess.run(['g++', '-std=c++20', '-O0', '-ftemplate-depth=4096'] + fe.includes(os.path.join(REPO, 'lib')) + [src, '-o', exe],
                           stdout=subprocess.PIPE, stderr=subprocess.STDOUT, text=True, timeout=600)
        if r.returncode != 0:
            return None
        q = subprocess.run([exe], stdout=subprocess.PIPE, stderr=subprocess.STDOUT, text=True, timeout=60)
    except subprocess.TimeoutExpired:
        return None
    if q.returncode != 1:
        return None
    c = cases[int(q.stdout.strip().splitlines()[0])]
    if kind == 'sort':
        return {'kind': 'C20-SORT', 'what': f'sort_index_sequence<{c[0]}> is not the ascending rearrangement (concrete g++ sweep; the evaluator could not read the header)',
                'site': 1, 'inputs': [{'kind': 'u64', 'name': f'x{i}', 'value': v} for i, v in enumerate(c[0])], 'ufs': [], 'where': None,
                'sweep_len': len(c[0])}
    return {'kind': 'C20-PERM', 'what': f'is_permutation<{c[0]},{c[1]}> has the wrong value (concrete g++ sweep; the evaluator could not read the header)',
            'site': 2, 'inputs': [{'kind': 'u64', 'name': f'u{i}', 'value': v} for i, v in enumerate(c[0])] +
                                 [{'kind': 'u64', 'name': f'v{i}', 'value': v} for i, v in enumerate(c[1])], 'ufs': [], 'where': None}


def c20_compile_check(fe, spec, values, expect_ok):
    """instantiate the real templates with concrete values under g++; returns (as expected?, detail)"""
    kind = spec['args'][0]
    if kind == 'sort':
        xs = [values[f'x{i}'] for i in range(len([k for k in values if k.startswith('x')]) or int(spec['args'][1]))]
        body = ('using S = typename covfie::utility::sort_index_sequence<std::index_sequence<%s>>::type;\n'
                'static_assert(std::is_same_v<S, std::index_sequence<%s>>, "sorted");\n') % (
            ', '.join(f'{v}ul' for v in xs), ', '.join(f'{v}ul' for v in sorted(xs)))
    else:
        a, b = int(spec['args'][1]), int(spec['args'][2])
        us = [values[f'u{i}'] for i in range(a)]; vs = [values[f'v{i}'] for i in range(b)]
        want = 'true' if sorted(us) == sorted(vs) else 'false'
        body = ('static_assert(covfie::utility::is_permutation<std::index_sequence<%s>, std::index_sequence<%s>>::value == %s, "perm");\n') % (
            ', '.join(f'{v}ul' for v in us), ', '.join(f'{v}ul' for v in vs), want)
    src = os.path.join(fe.dir, spec['name'] + f'.chk{abs(hash(str(values))) % 100000}.cpp')
    open(src, 'w').write('#include <covfie/core/utility/static_permutation.hpp>\n#include <type_traits>\n#include <utility>\n' + body)
    r = subprocess.run(['g++', '-std=c++20', '-fsyntax-only'] + fe.includes(os.path.join(REPO, 'lib')) + [src], stdout=subprocess.PIPE, stderr=subprocess.STDOUT, text=True)
    ok = r.returncode == 0
    return (ok == expect_ok), (body.strip() + ' => ' + ('accepted' if ok else first_error(r.stdout)))


def work(spec):
    """compile + symbolic execution + differential validation of the recorded traces"""
    if spec.get('c20'):
        return work_c20(spec)
    t0 = time.time()
    fe = FE
    ll, diag = fe.ir(spec['harness'], spec['inst'], spec['flavour'], spec.get('extra', ()), spec.get('defs', ()))
    if ll is None:
        ok, gdiag, gcmd = fe.gate(spec['harness'], spec['inst'], ndebug=spec['flavour'] in ('rel', 'san'), defs=spec.get('defs', ()))
        if not ok and not error_in_library(gdiag):
            # the unit is rejected because of the harness's own code: a defect of the machinery, never a finding
            return {'name': spec['name'], 'harness': spec['harness'], 'inst': spec['inst'], 'flavour': spec['flavour'],
                    'mode': spec['mode'], 'verdict': 'inconclusive',
                    'inconclusive': ['harness does not compile (error outside /repo/lib): ' + first_error(gdiag)], 'failures': [],
                    'n_failures': 0, 'asserts': {}, 'paths': 0, 'instrs': 0, 'queries': {}, 'solver_s': 0,
                    'wall_s': round(time.time() - t0, 2), 'functions': [], 'externals': [], 'traces': [], 'spec': spec}
        if not ok:
            return {'name': spec['name'], 'harness': spec['harness'], 'inst': spec['inst'], 'flavour': spec['flavour'],
                    'mode': spec['mode'], 'verdict': 'illformed', 'diagnostic': first_error(gdiag), 'command': gcmd,
                    'failures': [{'kind': 'ILL-FORMED', 'what': first_error(gdiag), 'site': None, 'inputs': [], 'ufs': []}],
                    'n_failures': 1, 'asserts': {}, 'inconclusive': [], 'paths': 0, 'instrs': 0, 'queries': {}, 'solver_s': 0,
                    'wall_s': round(time.time() - t0, 2), 'functions': [], 'externals': [], 'traces': [], 'spec': spec}
        return {'name': spec['name'], 'harness': spec['harness'], 'inst': spec['inst'], 'flavour': spec['flavour'],
                'mode': spec['mode'], 'verdict': 'inconclusive',
                'inconclusive': ['g++ accepts the unit but clang-14 rejects it: ' + first_error(diag)], 'failures': [],
                'n_failures': 0, 'asserts': {}, 'paths': 0, 'instrs': 0, 'queries': {}, 'solver_s': 0,
                'wall_s': round(time.time() - t0, 2), 'functions': [], 'externals': [], 'traces': [], 'spec': spec}
    if spec.get('product'):
        ll2, diag2 = fe.ir(spec['harness'], spec['inst'], spec['product'], spec.get('extra', ()), spec.get('defs', ()))
        if ll2 is None:
            spec = dict(spec); spec.pop('product')
        else:
            spec = dict(spec, product_ll=ll2)
    r = run_unit_subprocess(fe, ll, spec)
    r['spec'] = spec
    r['ir_lines'] = sum(1 for _ in open(ll))
    # differential validation: replay the model of some completed paths on the native g++ build
    r['diff'] = {'runs': 0, 'mismatches': []}
    if spec.get('diff') and r['traces'] and r['verdict'] != 'fail':
        exe, d = fe.native(spec['harness'], spec['inst'], tuple(NATIVE_FLAGS['rel' if spec['flavour'] in ('rel', 'san') else 'dbg']) + tuple(spec.get('extra', ())),
                           spec.get('defs', ()), tag='d')
        if exe is None:
            r['inconclusive'].append('native build for the differential run failed: ' + first_error(d))
            r['verdict'] = 'inconclusive' if r['verdict'] == 'pass' else r['verdict']
        else:
            for k, tr in enumerate(r['traces']):
                rp = os.path.join(fe.dir, f'{spec["name"]}.trace{k}.in')
                write_replay(rp, tr['inputs'], tr['ufs'], spec['mode'])
                rc, out, err = run_native(exe, rp)
                mm = compare_trace(tr, out, rc, spec['mode'])
                r['diff']['runs'] += 1
                nat_fail = [l for l in out.splitlines() if l.startswith('ASSERT-FAIL')]
                if nat_fail and 'ASSUME-FALSE' not in out and spec['mode'] == 'BITS':
                    # the g++ build breaks the harness assertion on an input on which the clang IR satisfies it: compiler-dependent
                    # behaviour of the code under check (evaluation order, ...). Concrete and reproduced on the real build: a violation.
                    site = int(nat_fail[0].split('=')[1].split()[0])
                    r['failures'].append({'kind': 'NATIVE-DIVERGENCE', 'site': site,
                                          'what': f'the g++ build fails assertion site {site} on a path model the clang IR satisfies (compiler-dependent behaviour)',
                                          'inputs': tr['inputs'], 'ufs': tr['ufs'], 'where': None})
                    r['n_failures'] += 1
                    r['verdict'] = 'fail'
                    continue
                if mm:
                    r['diff']['mismatches'].append({'trace': k, 'why': mm, 'inputs': tr['inputs'][:8]})
            if r['diff']['mismatches']:
                r['inconclusive'].append('differential validation: engine and native build disagree: ' + json.dumps(r['diff']['mismatches'][0])[:300])
                if r['verdict'] == 'pass':
                    r['verdict'] = 'inconclusive'
    r['wall_s'] = round(time.time() - t0, 2)
    return r


def run_unit_subprocess(fe, ll, spec):
    """the symbolic execution runs in its own process under a wall-clock limit: z3 API calls (simplify, assert)
    are not covered by the per-query solver timeout"""
    base = os.path.join(fe.dir, spec['name'].replace('/', '_'))
    sp, op = base + '.spec.json', base + '.out.json'
    json.dump(spec, open(sp, 'w'))
    tmo = spec.get('timeout', 600)
    t0 = time.time()
    try:
        p = subprocess.run([sys.executable, os.path.join(os.path.dirname(os.path.abspath(__file__)), 'runh.py'), '--unit', sp, ll, op],
                           stdout=subprocess.PIPE, stderr=subprocess.PIPE, text=True, timeout=tmo)
        if p.returncode == 0 and os.path.exists(op):
            return json.load(open(op))
        why = f'engine process failed rc={p.returncode}: {p.stderr[-300:]}'
    except subprocess.TimeoutExpired:
        why = f'unit exceeded its wall-clock limit of {tmo} s'
    return {'name': spec['name'], 'harness': spec['harness'], 'inst': spec['inst'], 'flavour': spec['flavour'],
            'mode': spec['mode'], 'verdict': 'inconclusive', 'inconclusive': [why], 'failures': [], 'n_failures': 0,
            'asserts': {}, 'paths': 0, 'instrs': 0, 'queries': {}, 'solver_s': 0, 'wall_s': round(time.time() - t0, 2),
            'functions': [], 'externals': [], 'traces': []}


def error_in_library(diag):
    """is the first hard error located in the repository's headers (and not in /verif/harness)?"""
    for l in diag.splitlines():
        if ' error: ' in l or ' error:' in l:
            loc = l.split(':', 1)[0]
            return '/lib/' in loc and 'covfie' in loc
    return False


def first_error(diag):
    for l in diag.splitlines():
        if 'error' in l:
            return l.strip()[:400]
    return diag.strip()[:400]


def compare_trace(tr, out, rc, mode):
    if 'ASSUME-FALSE' in out:
        if mode == 'BITS':
            return 'native run rejects an assumption the engine satisfied'
        return None      # REAL mode: rounding the rational inputs may leave the assumed region
    if rc != 0:
        return f'native exit code {rc}'
    obs = [l.split() for l in out.splitlines() if l.startswith('OBS ')]
    asr = [(int(l.split('=')[1]), 1 if l.startswith('ASSERT-OK') else 0) for l in out.splitlines() if l.startswith('ASSERT-')]
    if len(obs) != len(tr['observes']):
        return f'observe count {len(obs)} vs {len(tr["observes"])}'
    for (k, v), o in zip(tr['observes'], obs):
        nv = int(o[2], 16)
        if k == 'u64':
            if isinstance(v, int) and nv != (v & 0xFFFFFFFFFFFFFFFF):
                return f'observed u64 {nv:#x} natively, {v:#x} in the engine'
        else:
            if mode == 'BITS':
                if isinstance(v, int) and nv != v:
                    a = struct.unpack('<d', struct.pack('<Q', nv))[0]; b = struct.unpack('<d', struct.pack('<Q', v))[0]
                    if not (a != a and b != b):
                        return f'observed f64 bits {nv:#x} natively, {v:#x} in the engine'
            else:
                a = struct.unpack('<d', struct.pack('<Q', nv))[0]
                try:
                    b = float(Fraction(v)) if isinstance(v, str) else float(v)
                except Exception:
                    continue
                if abs(a - b) > 1e-3 * max(1.0, abs(a), abs(b)):
                    return f'observed f64 {a} natively, {b} in the engine'
    if [s for s, _ in asr] != [s for s, _ in tr['asserts']]:
        return f'assert site sequence {[s for s, _ in asr]} vs {[s for s, _ in tr["asserts"]]}'
    for (s1, o1), (s2, o2) in zip(asr, tr['asserts']):
        if o1 != o2 and mode == 'BITS':
            return f'assert site {s1}: native {"ok" if o1 else "fail"}, engine {"ok" if o2 else "fail"}'
    return None


# ------------------------------------------------------------------------------------------------ replay of failures
ASAN_KINDS = ('OUT-OF-BOUNDS', 'USE-AFTER-FREE', 'USE-AFTER-SCOPE', 'DOUBLE-FREE', 'BAD-FREE', 'MISMATCHED-DELETE',
              'NULL-DEREF', 'MEMCPY-OVERLAP', 'NULL-CALL', 'WRITE-TO-CONSTANT')


def replay_failure(fe, res, f, outdir):
    """returns (reproduced: bool|None, detail) ; None = cannot be replayed natively (reported separately)"""
    spec = res['spec']
    kind = f['kind']
    name = spec['name']
    rp = os.path.join(outdir, f'{name}.{kind}.{f.get("site")}.in')
    if kind in ('C20-SORT', 'C20-PERM'):
        vals = {i['name']: i['value'] for i in f['inputs']}
        ok, detail = c20_compile_check(fe, spec, vals, expect_ok=True)
        with open(rp, 'w') as fh:
            fh.write(detail + '\n')
        return (not ok), rp, 'g++: ' + detail
    if kind == 'ILL-FORMED':
        with open(rp, 'w') as fh:
            fh.write(res.get('command', '') + '\n' + res.get('diagnostic', '') + '\n')
        ok, gdiag, gcmd = fe.gate(spec['harness'], spec['inst'], ndebug=True, defs=spec.get('defs', ()))
        return (not ok), rp, 'g++ rejects the unit: ' + first_error(gdiag)
    write_replay(rp, f['inputs'], f['ufs'], spec['mode'])
    dbgflav = spec['flavour'] in ('dbg', 'dsan')
    tries = []
    if kind == 'HANG':
        exe, d = fe.native(spec['harness'], spec['inst'], tuple(NATIVE_FLAGS['rel']) + tuple(spec.get('extra', ())), spec.get('defs', ()), tag='rrel')
        if exe is None:
            return False, rp, 'native build failed: ' + first_error(d)
        rc, out, err = run_native(exe, rp, timeout=20)
        return (rc == -999), rp, f'[rel] native run {"did not finish within 20 s" if rc == -999 else "finished rc=%d" % rc} ' + out[-200:].replace('\n', ' / ')
    if kind == 'NATIVE-DIVERGENCE':
        exe, d = fe.native(spec['harness'], spec['inst'], tuple(NATIVE_FLAGS['dbg' if dbgflav else 'rel']) + tuple(spec.get('extra', ())), spec.get('defs', ()), tag='rrel')
        if exe is None:
            return False, rp, 'native build failed: ' + first_error(d)
        rc, out, err = run_native(exe, rp)
        return (f'ASSERT-FAIL site={f.get("site")}' in out), rp, f'[g++] rc={rc} ' + out[-300:].replace('\n', ' / ')
    if kind == 'PRECISION-LOSS':
        exe, d = fe.native(spec['harness'], spec['inst'], tuple(NATIVE_FLAGS['rel']) + tuple(spec.get('extra', ())), spec.get('defs', ()), tag='rrel')
        if exe is None:
            return False, rp, 'native build failed: ' + first_error(d)
        rc, out, err = run_native(exe, rp)
        return ('ASSERT-FAIL' in out), rp, f'[rel] rc={rc} ' + out[-300:].replace('\n', ' / ')
    if kind == 'ASSERT-FAIL':
        tries = [('dbg' if dbgflav else 'rel', False)]
        if spec.get('native') == 'tsan':
            tries = [('tsan', False)]
    elif kind == 'ABORT' or kind == 'UNCAUGHT-EXCEPTION':
        tries = [('dbg' if dbgflav else 'rel', False), ('dbg', False)]
    elif kind == 'UNINIT-DECISION':
        # undef data is either uninitialised memory (valgrind) or LLVM poison from an oversize shift (defined on x86, flagged by UBSan)
        tries = [('vg', True), ('clang_ubsan_dbg' if dbgflav else 'clang_ubsan', False)]
    elif kind.startswith('UB-') or kind in ASAN_KINDS:
        tries = [('asan_dbg' if dbgflav else 'asan', False), ('asan_dbg', False),
                 ('clang_ubsan_dbg' if dbgflav else 'clang_ubsan', False)]
    else:
        tries = [('rel', False)]
    if kind == 'BUILD-DIVERGENCE':
        outs = []
        for flav in ('rel', 'dbg'):
            exe, d = fe.native(spec['harness'], spec['inst'], tuple(NATIVE_FLAGS[flav]) + tuple(spec.get('extra', ())), spec.get('defs', ()), tag='r' + flav)
            if exe is None:
                return False, rp, 'native build failed: ' + first_error(d)
            rc, out, err = run_native(exe, rp)
            outs.append((rc, out))
        differ = outs[0] != outs[1]
        return differ, rp, f'rel: rc={outs[0][0]} {outs[0][1][-200:]!r} | dbg: rc={outs[1][0]} {outs[1][1][-200:]!r}'
    detail = ''
    for flav, vg in tries:
        exe, d = fe.native(spec['harness'], spec['inst'], tuple(NATIVE_FLAGS[flav]) + tuple(spec.get('extra', ())), spec.get('defs', ()), tag='r' + flav)
        if exe is None:
            detail = 'native build failed: ' + first_error(d)
            continue
        rc, out, err = run_native(exe, rp, valgrind=vg)
        detail = f'[{flav}] rc={rc} ' + (out[-300:] + ' | ' + err[-600:]).replace('\n', ' / ')
        if kind == 'ASSERT-FAIL' and flav == 'tsan':
            if 'ThreadSanitizer: data race' in err:
                return True, rp, detail
        elif kind == 'ASSERT-FAIL':
            site = f['site']
            if f'ASSERT-FAIL site={site}\n' in out or (site in (-1, -2) and 'ASSERT-FAIL' in out):
                return True, rp, detail
            if rc not in (0, 3):
                return True, rp, detail + ' (native run crashed before the assertion)'
        elif kind == 'ABORT':
            if rc in (-6, 134) or 'Assertion' in err or 'terminate called' in err:
                return True, rp, detail
        elif kind == 'UNCAUGHT-EXCEPTION':
            if 'UNCAUGHT' in out or rc in (-6, 134, 5):
                return True, rp, detail
        elif kind == 'UNINIT-DECISION':
            if vg and (rc == 9 or 'uninitialised' in err):
                return True, rp, detail
            if not vg and 'runtime error' in err and 'shift' in err:
                return True, rp, detail + ' (poison: shift by the width or more)'
        elif kind.startswith('UB-') or kind in ASAN_KINDS:
            if rc not in (0, 3) and ('runtime error' in err or 'AddressSanitizer' in err or rc in (-11, -6, 134, 139, 1)):
                return True, rp, detail
        else:
            if rc not in (0, 3):
                return True, rp, detail
    return False, rp, detail


# ------------------------------------------------------------------------------------------------ known findings
def load_known():
    if not os.path.exists(KNOWN):
        return []
    return json.load(open(KNOWN))['findings']


def match_known(known, pid, res, f):
    for k in known:
        if k.get('status') != 'known':
            continue
        if k['property'] != pid:
            continue
        if not re.fullmatch(k['unit'], res['name']):
            continue
        if k.get('kind') and k['kind'] != f['kind']:
            continue
        if k.get('site') is not None and k['site'] != f.get('site'):
            continue
        if k.get('where') and not any(k['where'] in w for w in (f.get('where') or [])) and k['where'] not in f.get('what', ''):
            continue
        return k
    return None


# ------------------------------------------------------------------------------------------------ main
def check(pid, tier, seed):
    global FE
    import props
    t0 = time.time()
    units = props.units(pid, tier, seed)
    if units is not None and tier == 'thorough':
        for u in units:
            if not u.get('c20'):
                u.setdefault('cfg', {})
                u['cfg'].setdefault('cross_check', 24)
    if units is None:
        print(f'property {pid} has no check (see MANIFEST not_applicable)')
        return 2
    only = os.environ.get('VF_ONLY')     # development aid: run the units whose name contains this; evidence is not rewritten
    if only:
        units = [u for u in units if only in u['name']]
    FE = Frontend()
    frontend_note = FE.adaptations
    nproc = int(os.environ.get('VF_JOBS', '16'))
    # heavier units first
    units.sort(key=lambda u: -u.get('weight', 1))
    with Pool(min(nproc, max(1, len(units)))) as pool:
        results = pool.map(work, units, chunksize=1)
    known = load_known()
    outdir = os.path.join(EVID, 'replay', pid)
    shutil.rmtree(outdir, ignore_errors=True)
    os.makedirs(outdir, exist_ok=True)
    violations = []; known_hits = {}; inconclusive = []; unconfirmed = []
    witness_ok = 0; witness_bad = []
    def replay_unit(r):
        """replays the distinct failures of one unit (sequentially: their replay files share a name stem)"""
        out = []
        seen = set()
        for f in r.get('failures', []):
            key = (f['kind'], f.get('site'), (f.get('where') or [''])[-1])
            if key in seen:
                continue
            seen.add(key)
            k = match_known(known, pid, r, f)
            if k is not None:
                out.append(('known', k['what'], None))
                continue
            ok, rp, detail = replay_failure(FE, r, f, outdir)
            rec = {'unit': r['name'], 'kind': f['kind'], 'site': f.get('site'), 'what': f['what'], 'replay': rp,
                   'inputs': f['inputs'][:16], 'native': detail[:800], 'where': f.get('where')}
            jp = rp[:-3] + '.json'
            json.dump({'property': pid, 'unit': r['spec'], 'failure': f, 'native': detail}, open(jp, 'w'), indent=1, default=str)
            rec['replay'] = jp
            out.append(('violation' if ok else 'unconfirmed', rec, None))
        return out

    todo = []
    for r in results:
        spec = r['spec']
        if spec.get('witness'):
            # sabotage twin: must come back violated
            if r['n_failures'] > 0: witness_ok += 1
            else: witness_bad.append(r['name'])
            continue
        for w in r.get('inconclusive', []):
            inconclusive.append(f'{r["name"]}: {w}')
        if r.get('failures'):
            todo.append(r)
    if todo:
        with Pool(min(nproc, len(todo))) as pool:
            outs = pool.map(replay_unit, todo, chunksize=1)
        for r, out in zip(todo, outs):
            for tag, rec, _ in out:
                if tag == 'known':
                    known_hits.setdefault(rec, []).append(r['name'])
                elif tag == 'violation':
                    violations.append(rec)
                else:
                    unconfirmed.append(rec)
    for wname in witness_bad:
        inconclusive.append(f'{wname}: sabotage twin was not refuted (vacuity guard)')
    for u in unconfirmed:
        inconclusive.append(f'{u["unit"]}: counterexample {u["kind"]} site={u["site"]} did not reproduce natively ({u["native"][:200]})')
    wall = time.time() - t0
    if not only:
        write_evidence(pid, tier, seed, results, violations, known_hits, inconclusive, unconfirmed, wall, frontend_note, witness_ok)
    for what, us in known_hits.items():
        print(f'KNOWN-FINDING: property={pid} {what} [{len(us)} unit(s)]')
    for v in violations:
        print(f'VIOLATION property={pid} replay={v["replay"]}')
        print(f'  unit={v["unit"]} kind={v["kind"]} site={v["site"]} {v["what"][:200]}')
    if violations:
        return 1
    if inconclusive:
        for w in inconclusive[:20]:
            print(f'INCONCLUSIVE property={pid} reason={w[:400]}')
        return 2
    n = sum(1 for r in results if not r['spec'].get('witness'))
    print(f'OK property={pid} tier={tier} units={n} paths={sum(r["paths"] for r in results)} '
          f'queries={sum(sum(r["queries"].values()) for r in results if r["queries"])} wall={wall:.1f}s')
    return 0


def write_evidence(pid, tier, seed, results, violations, known_hits, inconclusive, unconfirmed, wall, frontend_note, witness_ok):
    import props
    real = [r for r in results if not r['spec'].get('witness')]
    q = {'sat': 0, 'unsat': 0, 'unknown': 0}
    for r in results:
        for k, v in (r.get('queries') or {}).items():
            q[k] = q.get(k, 0) + v
    funcs = set()
    exts = set()
    for r in real:
        funcs.update(f for f in r.get('functions', []) if 'covfie' in f or 'vf_main' in f)
        exts.update(r.get('externals', []))
    samples = []
    for r in real[:400]:
        for site, a in list(r.get('asserts', {}).items())[:1]:
            if a.get('witness') and len(samples) < 6:
                samples.append({'unit': r['name'], 'inst': r['inst'], 'mode': r['mode'], 'flavour': r['flavour'],
                                'assert_site': site, 'witness_model': a['witness'], 'paths': r['paths']})
    if not samples:
        samples = [{'unit': r['name'], 'inst': r['inst'], 'verdict': r['verdict']} for r in real[:4]]
    info = props.info(pid)
    ev = {
        'property_id': pid, 'tier': tier, 'seed': seed, 'level': 'model_checking',
        'coverage': {
            'states': max(1, sum(r['paths'] for r in real)),
            'transitions': max(1, sum(r['instrs'] for r in real)),
            'traces_validated_against_impl': sum(r.get('diff', {}).get('runs', 0) for r in real) + len(violations),
            'samples': samples,
            'units': len(real),
            'units_passed': sum(1 for r in real if r['verdict'] == 'pass'),
            'assert_sites_discharged': sum(a['proved'] for r in real for a in r.get('asserts', {}).values()),
            'queries': q, 'solver_time_s': round(sum(r.get('solver_s', 0) for r in results), 2),
            'functions_encoded': sorted(funcs)[:400], 'n_functions_encoded': len(funcs),
            'external_models_used': sorted(exts),
            'ir_flavours': sorted({r['flavour'] for r in real}), 'number_modes': sorted({r['mode'] for r in real}),
            'bounds': info.get('bounds', ''), 'outside_bounds': info.get('outside', ''),
            'cuts_and_stubs': info.get('cuts', ''),
            'error_message_cuts_taken': sum(r.get('cuts', 0) for r in real),
            'ill_formed_units': [r['name'] for r in real if r['verdict'] == 'illformed'],
            'source_adaptations': frontend_note,
            'known_findings_applied': {k: v[:10] for k, v in known_hits.items()},
            'sabotage_twins_refuted': witness_ok,
            'second_solver_cvc5': {k: round(sum((r.get('cross_check') or {}).get(k, 0) for r in real), 1)
                                   for k in ('done', 'agree', 'disagree', 'unknown', 'error', 'skipped', 'time')},
            'differential_mismatches': sum(len(r.get('diff', {}).get('mismatches', [])) for r in real),
            'inconclusive': inconclusive[:20],
            'unconfirmed_counterexamples': unconfirmed[:10],
            'violations': violations[:20],
            'per_unit': [{'unit': r['name'], 'verdict': r['verdict'], 'paths': r['paths'], 'instrs': r['instrs'],
                          'queries': r.get('queries'), 'solver_s': r.get('solver_s'), 'wall_s': r.get('wall_s'),
                          'fp_ops': r.get('fp_ops'), 'path_kinds': r.get('path_kinds')} for r in real][:600],
            'exhaustive': False,
        },
        'assumptions': info.get('assumptions', []) + [
            'clang-14 IR (after typename fix-its) represents the program g++ compiles; bridged by native differential runs and replay',
            'operator new never fails; stream model of engine/models.py; default FP environment; x86-64 SysV layout',
            'z3 5.1.0 verdicts'],
        'wall_s': round(wall, 2), 'violations': len(violations),
    }
    os.makedirs(EVID, exist_ok=True)
    json.dump(ev, open(os.path.join(EVID, f'{pid}.json'), 'w'), indent=1, default=str)


def replay_cmd(pid, path):
    """re-run a recorded counterexample natively"""
    global FE
    j = json.load(open(path))
    FE = Frontend()
    res = {'spec': j['unit'], 'name': j['unit']['name'], 'command': '', 'diagnostic': ''}
    ok, rp, detail = replay_failure(FE, res, j['failure'], os.path.join(FE.dir, 'replay'))
    print(('REPRODUCED ' if ok else 'NOT-REPRODUCED ') + detail)
    if ok:
        print(f'VIOLATION property={pid} replay={path}')
    return 1 if ok else 0


if __name__ == '__main__':
    ap = argparse.ArgumentParser()
    ap.add_argument('pid')
    ap.add_argument('--tier', default=os.environ.get('VERIF_TIER', 'quick'))
    ap.add_argument('--replay', default=None)
    a = ap.parse_args()
    seed = int(os.environ.get('VERIF_SEED', '0') or 0)
    if a.replay:
        sys.exit(replay_cmd(a.pid, a.replay))
    try:
        rc = check(a.pid, a.tier, seed)
    except Exception as ex:
        traceback.print_exc()
        print(f'INCONCLUSIVE property={a.pid} reason=driver error {type(ex).__name__}: {ex}')
        rc = 2
    sys.exit(rc)
