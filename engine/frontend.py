"""Front end: scratch copy of /repo/lib, clang-14 down-levelling, IR generation, g++ gate, native builds (DESIGN.md 2.1)."""
import os, subprocess, tempfile, shutil, hashlib, re, sys, atexit, threading

REPO = os.environ.get('VF_REPO', '/repo')
VERIF = os.path.dirname(os.path.dirname(os.path.abspath(__file__)))
HARNESS = os.path.join(VERIF, 'harness')

COMMON = ['-std=c++20', '-ffp-contract=off']
IRFLAGS = ['-fno-vectorize', '-fno-slp-vectorize', '-mllvm', '-vectorize-loops=false', '-mllvm', '-vectorize-slp=false',
           '-fno-unroll-loops', '-S', '-emit-llvm', '-fno-discard-value-names',
           '-Wno-everything']
FLAVOURS = {
    'rel': ['-O2', '-DNDEBUG'],
    'dbg': ['-O0'],
    'san': ['-O1', '-DNDEBUG', '-fsanitize=undefined', '-fsanitize-trap=undefined', '-fno-sanitize=vptr,function,pointer-overflow,alignment'],
    'dsan': ['-O0', '-fsanitize=undefined', '-fsanitize-trap=undefined', '-fno-sanitize=vptr,function,pointer-overflow,alignment'],
}


def run(cmd, **kw):
    return subprocess.run(cmd, stdout=subprocess.PIPE, stderr=subprocess.STDOUT, text=True, **kw)


class Frontend:
    def __init__(s, keep=False):
        base = os.environ.get('VF_SCRATCH_BASE') or tempfile.gettempdir()
        s.dir = tempfile.mkdtemp(prefix='vfscratch.', dir=base)
        s.keep = keep
        s.pid = os.getpid()
        atexit.register(s.cleanup)
        s.lib = os.path.join(s.dir, 'lib')
        shutil.copytree(os.path.join(REPO, 'lib'), s.lib)
        s.adaptations = s.fixit()
        s.n = 0
        s.locks = {}
        s.biglock = threading.Lock()

    def lock(s, key):
        with s.biglock:
            l = s.locks.get(key)
            if l is None:
                l = threading.Lock(); s.locks[key] = l
            return l

    def cleanup(s):
        if not s.keep and os.getpid() == s.pid:
            shutil.rmtree(s.dir, ignore_errors=True)

    def includes(s, lib=None):
        lib = lib or s.lib
        return ['-I', os.path.join(lib, 'core'), '-I', os.path.join(lib, 'cpu'), '-I', os.path.join(lib, 'cuda'),
                '-I', os.path.join(HARNESS, 'cuda_shim'), '-I', HARNESS]

    def fixit(s):
        """clang-14 lacks P0634 (optional typename); let clang repair the scratch copy and insist that the
        repair consists of inserted `typename ` tokens only."""
        allcpp = os.path.join(s.dir, 'all.cpp')
        hdrs = []
        for root, _, files in os.walk(os.path.join(s.lib, 'core')):
            for f in files:
                if f.endswith('.hpp'):
                    hdrs.append(os.path.relpath(os.path.join(root, f), os.path.join(s.lib, 'core')))
        with open(allcpp, 'w') as fh:
            for h in sorted(hdrs):
                fh.write(f'#include <{h}>\n')
        for _ in range(4):
            r = run(['clang++-14'] + COMMON + ['-fsyntax-only', '-Xclang', '-fixit'] + s.includes() + [allcpp])
            if r.returncode == 0:
                break
        d = run(['diff', '-r', '-U0', os.path.join(REPO, 'lib'), s.lib]).stdout
        adds = [l for l in d.splitlines() if l.startswith('+') and not l.startswith('+++')]
        dels = [l for l in d.splitlines() if l.startswith('-') and not l.startswith('---')]
        if len(adds) != len(dels):
            raise Exception('encoder error: clang fix-it changed more than typename insertions:\n' + d)
        for a, b in zip(adds, dels):
            if a[1:].replace('typename ', '') != b[1:].replace('typename ', '') and a[1:].replace('typename ', '') != b[1:]:
                raise Exception('encoder error: clang fix-it changed more than typename insertions:\n' + d)
        return [l for l in d.splitlines() if l.startswith('+') or l.startswith('-')]

    def unit(s, harness, inst, defs=()):
        h = hashlib.sha1((harness + '|' + inst + '|' + '|'.join(defs)).encode()).hexdigest()[:12]
        return os.path.join(s.dir, f'{os.path.basename(harness)[:-4]}.{h}')

    def ir(s, harness, inst, flavour, extra=(), defs=()):
        """returns (path.ll | None, diagnostic)"""
        src = os.path.join(HARNESS, harness)
        out = s.unit(harness, inst, defs) + '.' + flavour + ('.x' + hashlib.sha1(' '.join(extra).encode()).hexdigest()[:6] if extra else '') + '.ll'
        with s.lock(out):
            return s._ir(src, out, inst, flavour, extra, defs)

    def _ir(s, src, out, inst, flavour, extra, defs):
        if os.path.exists(out):
            return out, ''
        cmd = (['clang++-14'] + COMMON + IRFLAGS + FLAVOURS[flavour] + list(extra) + s.includes()
               + [f'-DVF_INST={inst}'] + [f'-D{d}' for d in defs] + [src, '-o', out])
        r = run(cmd)
        if r.returncode != 0:
            return None, r.stdout
        return out, ''

    def gate(s, harness, inst, ndebug=True, defs=()):
        """reference-compiler gate: does g++ (the repository's compiler) accept the unit against /repo/lib itself?"""
        src = os.path.join(HARNESS, harness)
        cmd = (['g++'] + COMMON + ['-fsyntax-only', '-w'] + (['-DNDEBUG'] if ndebug else [])
               + s.includes(os.path.join(REPO, 'lib')) + [f'-DVF_INST={inst}'] + [f'-D{d}' for d in defs] + [src])
        r = run(cmd)
        return r.returncode == 0, r.stdout, ' '.join(cmd)

    def native(s, harness, inst, flags=('-O2', '-g', '-DNDEBUG'), defs=(), tag='n'):
        """native g++ build of the harness against /repo/lib, linked with the replay runtime"""
        src = os.path.join(HARNESS, harness)
        out = s.unit(harness, inst, defs) + '.' + tag + hashlib.sha1(' '.join(flags).encode()).hexdigest()[:6]
        with s.lock(out):
            return s._native(src, out, inst, flags, defs)

    def _native(s, src, out, inst, flags, defs):
        if os.path.exists(out):
            return out, ''
        flags = tuple(flags)
        if flags and flags[0] == 'CLANG':
            # clang build against the scratch copy (UBSan of the compiler whose IR the engine executes)
            cmd = (['clang++-14'] + COMMON + ['-w'] + list(flags[1:]) + s.includes()
                   + [f'-DVF_INST={inst}', '-DVF_NATIVE'] + [f'-D{d}' for d in defs]
                   + [src, os.path.join(HARNESS, 'replay_rt.cpp'), '-o', out])
            r = run(cmd)
            if r.returncode != 0:
                return None, r.stdout
            return out, ''
        cmd = (['g++'] + COMMON + ['-w'] + list(flags) + s.includes(os.path.join(REPO, 'lib'))
               + [f'-DVF_INST={inst}', '-DVF_NATIVE'] + [f'-D{d}' for d in defs]
               + [src, os.path.join(HARNESS, 'replay_rt.cpp'), '-o', out])
        r = run(cmd)
        if r.returncode != 0:
            return None, r.stdout
        return out, ''
