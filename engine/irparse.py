"""LLVM-14 textual IR parser (subset clang emits for covfie). Prototype."""
import re, sys
from dataclasses import dataclass, field as dfield

TOKEN_RE = re.compile(r'''
  (?P<ws>[ \t]+)
 |(?P<comment>;[^\n]*)
 |(?P<str>c?"[^"]*")
 |(?P<local>%(?:"[^"]*"|[-a-zA-Z$._0-9]+))
 |(?P<glob>@(?:"[^"]*"|[-a-zA-Z$._0-9]+))
 |(?P<comdat>\$(?:"[^"]*"|[-a-zA-Z$._0-9]+))
 |(?P<meta>!(?:"[^"]*"|[-a-zA-Z$._0-9]+)?)
 |(?P<attr>\#\d+)
 |(?P<hex>0x[KLMHR]?[0-9A-Fa-f]+)
 |(?P<flt>-?\d+\.\d*(?:[eE][+-]?\d+)?)
 |(?P<int>-?\d+)
 |(?P<word>[a-zA-Z_][\w.]*)
 |(?P<dots>\.\.\.)
 |(?P<p>[()\[\]{}<>,=*:|])
''', re.X)

def tokenize(line):
    out=[]; pos=0
    while pos < len(line):
        m=TOKEN_RE.match(line,pos)
        if not m: raise SyntaxError(f'bad token at {line[pos:pos+40]!r}')
        pos=m.end(); k=m.lastgroup
        if k in('ws','comment'): continue
        out.append((k,m.group()))
    return out

# ---------------- types
@dataclass(frozen=True)
class Ty:
    k: str            # void int float double ptr struct array vector named func label metadata opaque x86_fp80 token
    bits: int = 0
    elem: object = None
    n: int = 0
    fields: tuple = ()
    packed: bool = False
    name: str = ''
    ret: object = None
    params: tuple = ()
    vararg: bool = False
    def __repr__(self):
        if self.k=='int': return f'i{self.bits}'
        if self.k in('void','float','double','label','metadata','x86_fp80','token','half'): return self.k
        if self.k=='ptr': return f'{self.elem}*'
        if self.k=='array': return f'[{self.n} x {self.elem}]'
        if self.k=='vector': return f'<{self.n} x {self.elem}>'
        if self.k=='struct': return ('<{' if self.packed else '{')+', '.join(map(repr,self.fields))+('}>' if self.packed else '}')
        if self.k=='named': return self.name
        if self.k=='func': return f'{self.ret} ({", ".join(map(repr,self.params))}{", ..." if self.vararg else ""})'
        return self.k
VOID=Ty('void'); I1=Ty('int',1); I8=Ty('int',8); I32=Ty('int',32); I64=Ty('int',64)

class Cur:
    def __init__(s,toks,line=''): s.t=toks; s.i=0; s.line=line
    def peek(s,o=0): return s.t[s.i+o] if s.i+o < len(s.t) else ('eof','')
    def next(s): x=s.peek(); s.i+=1; return x
    def accept(s,val):
        if s.peek()[1]==val: s.i+=1; return True
        return False
    def expect(s,val):
        x=s.next()
        if x[1]!=val: raise SyntaxError(f'expected {val!r} got {x!r} in: {s.line[:200]}')
    def eof(s): return s.i>=len(s.t)

def parse_type(c):
    k,v=c.next()
    if k=='word':
        if v=='void': t=VOID
        elif re.fullmatch(r'i\d+',v): t=Ty('int',int(v[1:]))
        elif v in('float','double','label','metadata','x86_fp80','token','half','opaque'): t=Ty(v)
        elif v=='ptr': t=Ty('ptr',elem=I8)
        else: raise SyntaxError(f'type? {v} in {c.line[:160]}')
    elif k=='local': t=Ty('named',name=v)
    elif v=='[':
        n=int(c.next()[1]); c.expect('x'); e=parse_type(c); c.expect(']'); t=Ty('array',elem=e,n=n)
    elif v=='<':
        if c.peek()[1]=='{':
            c.next(); fs=[]
            if not c.accept('}'):
                while True:
                    fs.append(parse_type(c))
                    if c.accept('}'): break
                    c.expect(',')
            c.expect('>'); t=Ty('struct',fields=tuple(fs),packed=True)
        else:
            n=int(c.next()[1]); c.expect('x'); e=parse_type(c); c.expect('>'); t=Ty('vector',elem=e,n=n)
    elif v=='{':
        fs=[]
        if not c.accept('}'):
            while True:
                fs.append(parse_type(c))
                if c.accept('}'): break
                c.expect(',')
        t=Ty('struct',fields=tuple(fs))
    else: raise SyntaxError(f'type? {k} {v} in {c.line[:160]}')
    while True:
        if c.peek()[1]=='*': c.next(); t=Ty('ptr',elem=t)
        elif c.peek()[1]=='addrspace': c.next(); c.expect('('); c.next(); c.expect(')')
        elif c.peek()[1]=='(' :   # function type
            c.next(); ps=[]; va=False
            if not c.accept(')'):
                while True:
                    if c.peek()[0]=='dots': c.next(); va=True
                    else: ps.append(parse_type(c))
                    if c.accept(')'): break
                    c.expect(',')
            t=Ty('func',ret=t,params=tuple(ps),vararg=va)
        else: break
    return t

# ---------------- values
@dataclass
class V:
    k: str        # local global int float null undef poison zero true false str agg cexpr meta
    ty: object = None
    v: object = None
    ops: list = None
    def __repr__(self): return f'{self.k}:{self.v}' if self.ops is None else f'{self.k}:{self.v}{self.ops}'

PARAM_ATTRS={'noundef','nonnull','nocapture','readonly','readnone','writeonly','noalias','signext','zeroext','inreg','returned','immarg','nofree','nest','swiftself','noreturn','nounwind','inalloca','swifterror','mustprogress','writable','dead_on_unwind','initializes','captures'}
def skip_param_attrs(c, attrs=None):
    while True:
        k,v=c.peek()
        if k=='word' and v in PARAM_ATTRS: c.next(); continue
        if k=='word' and v in('align','dereferenceable','dereferenceable_or_null'):
            c.next()
            if c.accept('('): c.next(); c.expect(')')
            else: c.next()
            continue
        if k=='word' and v in('byval','sret','byref','preallocated','elementtype','inalloca'):
            c.next(); ty=None
            if c.accept('('): ty=parse_type(c); c.expect(')')
            if attrs is not None: attrs[v]=ty
            continue
        break

CAST_OPS={'bitcast','ptrtoint','inttoptr','trunc','zext','sext','addrspacecast','fptrunc','fpext','uitofp','sitofp','fptoui','fptosi'}
BIN_OPS={'add','sub','mul','udiv','sdiv','urem','srem','shl','lshr','ashr','and','or','xor','fadd','fsub','fmul','fdiv','frem'}
def parse_const(c, ty):
    k,v=c.next()
    if k=='int': return V('int',ty,int(v))
    if k=='flt': return V('float',ty,float(v))
    if k=='hex':
        import struct
        if v[2] in 'KLMHR': return V('float',ty,('raw',v))
        bits=int(v,16); return V('float',ty,struct.unpack('<d',struct.pack('<Q',bits))[0])
    if k=='local': return V('local',ty,v)
    if k=='glob': return V('global',ty,v)
    if k=='str': return V('str',ty,v)
    if k=='meta': return V('meta',ty,v)
    if k=='word':
        if v in('null','undef','poison','zeroinitializer','true','false','none'): return V(v if v!='zeroinitializer' else 'zero',ty,{'true':1,'false':0}.get(v))
        if v=='getelementptr':
            inb=c.accept('inbounds'); c.expect('('); bt=parse_type(c); c.expect(','); ops=[]
            while True:
                c.accept('inrange'); t=parse_type(c); ops.append(parse_const(c,t))
                if c.accept(')'): break
                c.expect(',')
            return V('cexpr',ty,'getelementptr',[bt]+ops)
        if v in CAST_OPS:
            c.expect('('); t=parse_type(c); o=parse_const(c,t); c.expect('to'); t2=parse_type(c); c.expect(')')
            return V('cexpr',t2,v,[o])
        if v in BIN_OPS or v in('icmp','fcmp','select'):
            while c.peek()[1] in('nuw','nsw','exact'): c.next()
            pred=None
            if v in('icmp','fcmp'): pred=c.next()[1]
            c.expect('('); ops=[]
            while True:
                t=parse_type(c); ops.append(parse_const(c,t))
                if c.accept(')'): break
                c.expect(',')
            return V('cexpr',ty,v if pred is None else (v,pred),ops)
        raise SyntaxError(f'const? {v} in {c.line[:200]}')
    if v in('{','[','<'):
        close={'{':'}','[':']','<':'>'}[v]
        packed=False
        if v=='<' and c.peek()[1]=='{': c.next(); close='}'; packed=True
        ops=[]
        if not c.accept(close):
            while True:
                t=parse_type(c); ops.append(parse_const(c,t))
                if c.accept(close): break
                c.expect(',')
        if packed: c.expect('>')
        return V('agg',ty,None,ops)
    raise SyntaxError(f'const? {k} {v} in {c.line[:200]}')

def parse_tv(c, attrs=None):
    t=parse_type(c); skip_param_attrs(c, attrs); return parse_const(c,t)

# ---------------- module structures
@dataclass
class Instr:
    op: str; res: str=None; ty: object=None; ops: list=None; extra: dict=None
    line: str=''
@dataclass
class Block:
    name: str; instrs: list=dfield(default_factory=list)
@dataclass
class Func:
    name: str; ret: object; params: list; blocks: dict; order: list; vararg: bool=False; pattrs: list=None
@dataclass
class Module:
    types: dict; globals: dict; funcs: dict; decls: dict; datalayout: str=''

FAST_FLAGS={'nnan','ninf','nsz','arcp','contract','afn','reassoc','fast'}
def skip_trailing(c):
    # ", !tbaa !5", ", align 8", "#12"
    while not c.eof():
        k,v=c.peek()
        if v==',': c.next(); continue
        if k in('meta','attr'): c.next(); continue
        if v=='align': c.next(); c.next(); continue
        if v in ('{','}'): # metadata node inline
            c.next(); continue
        break

def parse_call_like(c, ins):
    # [tail] call [fast] [cconv] [ret attrs] <ty> <callee>(<args>) [attrs]
    while c.peek()[1] in FAST_FLAGS|{'fastcc','ccc','coldcc'}: c.next()
    skip_param_attrs(c)
    rty=parse_type(c)
    callee=parse_const(c, None)
    c.expect('(')
    args=[]; aattrs=[]
    if not c.accept(')'):
        while True:
            a={}; args.append(parse_tv(c,a)); aattrs.append(a)
            if c.accept(')'): break
            c.expect(',')
    if rty.k=='func': rty=rty.ret
    if rty.k=='ptr' and rty.elem.k=='func': rty=rty.elem.ret
    ins.ty=rty; ins.ops=[callee]+args; ins.extra={'aattrs':aattrs}
    # trailing fn attrs / operand bundles ignored
    while not c.eof() and c.peek()[1] not in('to',):
        if c.peek()[1]=='[':   # operand bundle
            depth=0
            while True:
                v=c.next()[1]
                if v=='[': depth+=1
                if v==']':
                    depth-=1
                    if depth==0: break
            continue
        k,v=c.peek()
        if k in('attr','meta') or v==',' or (k=='word' and v in PARAM_ATTRS|{'nobuiltin','builtin','allocsize','cold','convergent','nomerge','willreturn'}): c.next(); continue
        break

def parse_instr(line):
    toks=tokenize(line); c=Cur(toks,line)
    res=None
    if c.peek()[0]=='local' and c.peek(1)[1]=='=':
        res=c.next()[1]; c.next()
    while c.peek()[1] in('tail','musttail','notail'): c.next()
    op=c.next()[1]
    ins=Instr(op,res,line=line)
    if op in BIN_OPS:
        while c.peek()[1] in FAST_FLAGS|{'nuw','nsw','exact'}: c.next()
        t=parse_type(c); a=parse_const(c,t); c.expect(','); b=parse_const(c,t); ins.ty=t; ins.ops=[a,b]
    elif op=='fneg':
        while c.peek()[1] in FAST_FLAGS: c.next()
        t=parse_type(c); ins.ty=t; ins.ops=[parse_const(c,t)]
    elif op in('icmp','fcmp'):
        while c.peek()[1] in FAST_FLAGS: c.next()
        pred=c.next()[1]; t=parse_type(c); a=parse_const(c,t); c.expect(','); b=parse_const(c,t)
        ins.ty=I1 if t.k!='vector' else Ty('vector',elem=I1,n=t.n); ins.ops=[a,b]; ins.extra={'pred':pred,'opty':t}
    elif op in CAST_OPS:
        t=parse_type(c); a=parse_const(c,t); c.expect('to'); t2=parse_type(c); ins.ty=t2; ins.ops=[a]; ins.extra={'from':t}
    elif op=='freeze':
        t=parse_type(c); ins.ty=t; ins.ops=[parse_const(c,t)]
    elif op=='alloca':
        c.accept('inalloca'); t=parse_type(c); n=V('int',I64,1)
        if c.accept(','):
            if c.peek()[1]!='align' and c.peek()[1]!='addrspace': n=parse_tv(c)
        ins.ty=Ty('ptr',elem=t); ins.ops=[n]; ins.extra={'aty':t}
    elif op=='load':
        at=c.accept('atomic'); c.accept('volatile'); t=parse_type(c); c.expect(','); p=parse_tv(c); ins.ty=t; ins.ops=[p]; ins.extra={'atomic':at}
    elif op=='store':
        at=c.accept('atomic'); c.accept('volatile'); v=parse_tv(c); c.expect(','); p=parse_tv(c); ins.ty=VOID; ins.ops=[v,p]; ins.extra={'atomic':at}
    elif op=='atomicrmw':
        c.accept('volatile'); rmw=c.next()[1]; p=parse_tv(c); c.expect(','); v=parse_tv(c); ins.ty=v.ty; ins.ops=[p,v]; ins.extra={'rmw':rmw}
    elif op=='cmpxchg':
        c.accept('weak'); c.accept('volatile'); p=parse_tv(c); c.expect(','); e=parse_tv(c); c.expect(','); n=parse_tv(c)
        ins.ty=Ty('struct',fields=(e.ty,I1)); ins.ops=[p,e,n]
    elif op=='getelementptr':
        c.accept('inbounds'); bt=parse_type(c); c.expect(','); ops=[]
        while True:
            ops.append(parse_tv(c))
            if not (c.peek()[1]==',' and c.peek(1)[0]!='meta' ): break
            c.next()
        ins.ops=ops; ins.extra={'base':bt}; ins.ty=None
    elif op=='select':
        while c.peek()[1] in FAST_FLAGS: c.next()
        a=parse_tv(c); c.expect(','); b=parse_tv(c); c.expect(','); d=parse_tv(c); ins.ty=b.ty; ins.ops=[a,b,d]
    elif op=='phi':
        while c.peek()[1] in FAST_FLAGS: c.next()
        t=parse_type(c); inc=[]
        while True:
            c.expect('['); v=parse_const(c,t); c.expect(','); l=c.next()[1]; c.expect(']'); inc.append((v,l))
            if not (c.peek()[1]==',' and c.peek(1)[1]=='['): break
            c.next()
        ins.ty=t; ins.ops=inc
    elif op=='br':
        if c.peek()[1]=='label': c.next(); ins.ops=[c.next()[1]]
        else:
            cond=parse_tv(c); c.expect(','); c.expect('label'); a=c.next()[1]; c.expect(','); c.expect('label'); b=c.next()[1]; ins.ops=[cond,a,b]
    elif op=='switch':
        v=parse_tv(c); c.expect(','); c.expect('label'); d=c.next()[1]; c.expect('['); cases=[]
        while not c.accept(']'):
            cv=parse_tv(c); c.expect(','); c.expect('label'); cases.append((cv,c.next()[1]))
        ins.ops=[v,d,cases]
    elif op=='ret':
        t=parse_type(c); ins.ty=t; ins.ops=[] if t.k=='void' else [parse_const(c,t)]
    elif op in('unreachable',): ins.ops=[]
    elif op=='resume': ins.ops=[parse_tv(c)]
    elif op=='call':
        parse_call_like(c,ins)
    elif op=='invoke':
        parse_call_like(c,ins); c.expect('to'); c.expect('label'); n=c.next()[1]; c.expect('unwind'); c.expect('label'); u=c.next()[1]
        ins.extra.update(normal=n,unwind=u)
    elif op=='landingpad':
        t=parse_type(c); clauses=[]
        while not c.eof():
            w=c.next()[1]
            if w=='cleanup': clauses.append(('cleanup',None))
            elif w in('catch','filter'): clauses.append((w,parse_tv(c)))
            else: break
        ins.ty=t; ins.ops=[]; ins.extra={'clauses':clauses}
    elif op=='extractvalue':
        a=parse_tv(c); idx=[]
        while c.peek()[1]==',' and c.peek(1)[0]=='int': c.next(); idx.append(int(c.next()[1]))
        ins.ops=[a]; ins.extra={'idx':idx}
    elif op=='insertvalue':
        a=parse_tv(c); c.expect(','); b=parse_tv(c); idx=[]
        while c.peek()[1]==',' and c.peek(1)[0]=='int': c.next(); idx.append(int(c.next()[1]))
        ins.ty=a.ty; ins.ops=[a,b]; ins.extra={'idx':idx}
    elif op=='extractelement':
        a=parse_tv(c); c.expect(','); i=parse_tv(c); ins.ty=a.ty.elem; ins.ops=[a,i]
    elif op=='insertelement':
        a=parse_tv(c); c.expect(','); b=parse_tv(c); c.expect(','); i=parse_tv(c); ins.ty=a.ty; ins.ops=[a,b,i]
    elif op=='shufflevector':
        a=parse_tv(c); c.expect(','); b=parse_tv(c); c.expect(','); m=parse_tv(c); ins.ty=Ty('vector',elem=a.ty.elem,n=m.ty.n); ins.ops=[a,b,m]
    elif op in('fence',): ins.ops=[]
    else:
        raise SyntaxError(f'unknown instruction {op}: {line[:200]}')
    return ins

CONT_RE=re.compile(r'^\s+(to label|cleanup|catch|filter|\]|i\d+ -?\d+, label)')
def parse_module(text):
    types={}; globs={}; funcs={}; decls={}; dl=''
    lines=text.split('\n'); i=0
    while i < len(lines):
        ln=lines[i]; i+=1
        s=ln.strip()
        if not s or s.startswith(';') or s.startswith('!') or s.startswith('attributes') or s.startswith('source_filename') or s.startswith('target triple') or s.startswith('$'): continue
        if s.startswith('target datalayout'): dl=s.split('"')[1]; continue
        if s.startswith('%') and ' = type ' in s:
            c=Cur(tokenize(s),s); name=c.next()[1]; c.expect('='); c.expect('type')
            types[name]=parse_type(c); continue
        if s.startswith('@'):
            c=Cur(tokenize(s),s); name=c.next()[1]; c.expect('=')
            kw=[]
            while c.peek()[0]=='word' and c.peek()[1] not in('global','constant','alias','ifunc'):
                w=c.next()[1]; kw.append(w)
                if w in('unnamed_addr','local_unnamed_addr'): pass
                if c.peek()[1]=='(' : # thread_local(...)
                    while c.next()[1]!=')': pass
            kind=c.next()[1]
            if kind in('alias','ifunc'): continue
            t=parse_type(c); init=None
            if not c.eof() and c.peek()[1]!=',' : 
                try: init=parse_const(c,t)
                except SyntaxError: init=None
            globs[name]=dict(ty=t,init=init,const=(kind=='constant'),external=('external' in kw),kw=kw); continue
        if s.startswith('declare'):
            c=Cur(tokenize(s),s); c.next()
            while c.peek()[0]=='word' and c.peek()[1] in {'dso_local','hidden','noalias','nonnull','noundef','zeroext','signext','extern_weak','fastcc','protected','default'}|PARAM_ATTRS: c.next()
            skip_param_attrs(c); rt=parse_type(c); skip_param_attrs(c)
            name=c.next()[1]; decls[name]=dict(ret=rt); continue
        if s.startswith('define'):
            c=Cur(tokenize(s),s); c.next()
            while c.peek()[0]=='word' and c.peek()[1] in {'dso_local','hidden','internal','linkonce_odr','weak_odr','private','available_externally','weak','linkonce','external','protected','default','fastcc','ccc'}: c.next()
            skip_param_attrs(c); rt=parse_type(c)
            name=c.next()[1]; c.expect('('); params=[]; pattrs=[]; va=False
            if not c.accept(')'):
                while True:
                    if c.peek()[0]=='dots': c.next(); va=True
                    else:
                        t=parse_type(c); a={}; skip_param_attrs(c,a); pn=c.next()[1]; params.append((pn,t)); pattrs.append(a)
                    if c.accept(')'): break
                    c.expect(',')
            blocks={}; order=[]; cur=None
            # first block implicit label = number of params (unnamed) -> use '%<n>' unknown; name it 'entry' and map later
            nimpl=sum(1 for p,_ in params if re.fullmatch(r'%\d+',p))
            cur=None
            while i < len(lines):
                ln=lines[i]; i+=1
                if ln.startswith('}'): break
                s2=ln.strip()
                if not s2 or s2.startswith(';'): continue
                m=re.match(r'^("[^"]*"|[-a-zA-Z$._0-9]+):',ln)
                if m:
                    cur=Block('%'+m.group(1)); blocks[cur.name]=cur; order.append(cur.name); continue
                while i < len(lines) and (CONT_RE.match(lines[i]) or ln.rstrip().endswith('[') and not lines[i].startswith('}')):
                    ln=ln+' '+lines[i].strip(); i+=1
                    if ln.rstrip().endswith(']'): 
                        if not (i<len(lines) and CONT_RE.match(lines[i])): break
                if cur is None:
                    cur=Block('%'+str(nimpl)); blocks[cur.name]=cur; order.append(cur.name)
                cur.instrs.append(parse_instr(ln.strip()))
            funcs[name]=Func(name,rt,params,blocks,order,va,pattrs); continue
        raise SyntaxError('top-level? '+s[:120])
    return Module(types,globs,funcs,decls,dl)

if __name__=='__main__':
    m=parse_module(open(sys.argv[1]).read())
    n=sum(len(b.instrs) for f in m.funcs.values() for b in f.blocks.values())
    print(len(m.types),'types',len(m.globals),'globals',len(m.funcs),'funcs',len(m.decls),'decls',n,'instrs')
