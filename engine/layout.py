"""x86-64 SysV data layout for the parsed IR types."""
from irparse import Ty


class Layout:
    def __init__(s, mod):
        s.m = mod
        s._sa = {}
        dl = mod.datalayout
        # The encoder assumes the x86-64 SysV layout clang-14 prints; refuse anything else.
        if dl and not dl.startswith('e-m:e'):
            raise Exception('unexpected datalayout ' + dl)

    def res(s, t):
        while t.k == 'named':
            t = s.m.types[t.name]
        return t

    def size_align(s, t):
        key = t
        r = s._sa.get(key)
        if r is not None:
            return r
        t = s.res(t)
        if t.k == 'int':
            b = 1
            while b * 8 < t.bits:
                b *= 2
            r = (b, min(b, 8) if b <= 8 else 16)
        elif t.k == 'float':
            r = (4, 4)
        elif t.k == 'double':
            r = (8, 8)
        elif t.k == 'ptr':
            r = (8, 8)
        elif t.k == 'x86_fp80':
            r = (16, 16)
        elif t.k == 'array':
            es, ea = s.size_align(t.elem)
            r = (es * t.n, ea)
        elif t.k == 'vector':
            es, ea = s.size_align(t.elem)
            n = es * t.n
            a = 1
            while a < n:
                a *= 2
            r = (n, a)
        elif t.k == 'struct':
            off = 0
            al = 1
            for f in t.fields:
                fs, fa = s.size_align(f)
                if t.packed:
                    fa = 1
                off = (off + fa - 1) // fa * fa + fs
                al = max(al, fa)
            r = ((off + al - 1) // al * al, al)
        elif t.k == 'func':
            r = (1, 1)
        elif t.k == 'opaque':
            r = (0, 1)
        else:
            raise Exception(f'size of {t}')
        s._sa[key] = r
        return r

    def field_off(s, t, i):
        t = s.res(t)
        off = 0
        for j, f in enumerate(t.fields):
            fs, fa = s.size_align(f)
            if t.packed:
                fa = 1
            off = (off + fa - 1) // fa * fa
            if j == i:
                return off
            off += fs
        raise Exception('field index')
