"""External function models and the harness API (DESIGN.md 2.2, 2.3). Every model here is part of the claim."""
import re
from fractions import Fraction
import z3
from alg import *
from irparse import Ty

UBSAN_KINDS = {0: 'add-overflow', 1: 'builtin-unreachable', 2: 'cfi-check-fail', 3: 'divrem-overflow',
               4: 'dynamic-type-cache-miss', 5: 'float-cast-overflow', 6: 'function-type-mismatch',
               7: 'implicit-conversion', 8: 'invalid-builtin', 9: 'invalid-objc-cast', 10: 'load-invalid-value',
               11: 'missing-return', 12: 'mul-overflow', 13: 'negate-overflow', 14: 'nullability-arg',
               15: 'nullability-return', 16: 'nonnull-arg', 17: 'nonnull-return', 18: 'out-of-bounds',
               19: 'pointer-overflow', 20: 'shift-out-of-bounds', 21: 'sub-overflow', 22: 'type-mismatch',
               23: 'alignment-assumption', 24: 'vla-bound-not-positive'}

# ios_base state bits (libstdc++)
BADBIT, EOFBIT, FAILBIT = 1, 2, 4
ISTREAM_VBASE = 16      # sizeof(std::istream) proper: vptr + _M_gcount
OSTREAM_VBASE = 8
STATE_OFF = 32          # offsetof(ios_base, _M_streambuf_state)


class Stream:
    def __init__(s):
        s.data = []
        s.pos = 0
        s.len = None       # readable length (int | term); None for output streams
        s.failed = False
        s.fail_at = None   # reads with index >= fail_at deliver nothing (int | term | None)
        s.nreads = 0
        s.vbase = ISTREAM_VBASE

    def clone(s):
        n = Stream()
        n.data = list(s.data); n.pos = s.pos; n.len = s.len; n.failed = s.failed
        n.fail_at = s.fail_at; n.nreads = s.nreads; n.vbase = s.vbase
        return n


class Models:
    def __init__(s, eng):
        s.eng = eng
        s.table = {}
        s.pin_i = 0
        for k in dir(s):
            if k.startswith('x_'):
                s.table['@' + k[2:]] = getattr(s, k)

    # ------------------------------------------------------------------ dispatch
    def call(s, st, stack, work, name, args, ins):
        e = s.eng
        from symex import RAISED, PathEnd
        s.RAISED = RAISED; s.PathEnd = PathEnd
        h = s.table.get(name)
        if h is not None:
            return h(st, stack, work, args, ins)
        if name.startswith('@llvm.'):
            return s.llvm(st, stack, work, name, args, ins)
        if name.startswith('@vf_nondet_'):
            return s.nondet(st, stack, work, name[len('@vf_nondet_'):], args)
        if name.startswith('@vf_observe_'):
            st.observes.append((name[len('@vf_observe_'):], args[0]))
            return None
        m = re.match(r'@vf_uf(r?)_(f32|f64|u64)$', name)
        if m:
            return s.uf(st, m.group(1) == 'r', m.group(2), args)
        m = re.match(r'@vf_eq_real_(f32|f64)$', name)
        if m:
            return s.eq_real(st, args, m.group(1))
        m = re.match(r'@vf_coord_(f32|f64)$', name)
        if m:
            return s.coord(st, args, m.group(1))
        if re.match(r'@_ZNSt(13runtime_error|11logic_error|12length_error|12out_of_range|16invalid_argument)(C[12]|D[012])', name):
            return None
        if re.match(r'@_ZNSt9exceptionD[012]Ev', name):
            return None
        raise Inconclusive('unmodelled external ' + name)

    def known(s, name):
        """is there a model for this external? (the error-message cut only applies to regions that need unmodelled ones)"""
        if name in s.table or name.startswith('@llvm.') or name.startswith('@vf_'):
            return True
        if re.match(r'@_ZNSt(13runtime_error|11logic_error|12length_error|12out_of_range|16invalid_argument)(C[12]|D[012])', name):
            return True
        if re.match(r'@_ZNSt9exceptionD[012]Ev', name):
            return True
        return False

    def stop(s):
        raise s.PathEnd()

    # ------------------------------------------------------------------ harness API
    NONDET = {'u8': ('int', 8), 'u16': ('int', 16), 'u32': ('int', 32), 'u64': ('int', 64), 'size': ('int', 64),
              'i32': ('int', 32), 'i64': ('int', 64), 'f32': ('float', 32), 'f64': ('double', 64),
              'unit_f32': ('float', 32), 'unit_f64': ('double', 64), 'bool': ('int', 8)}

    def nondet(s, st, stack, work, kind, args):
        e = s.eng; A = e.A
        if kind == 'range':
            lo, hi = args
            nm = f'in!{len(st.inputs)}!range'
            v = A.fresh(st, nm, 64)
            t = A.term(st, v, 64)
            if A.name == 'BITS':
                st.pc.append(z3.And(z3.UGE(t, A.bv(lo, 64)), z3.ULE(t, A.bv(hi, 64))))
            else:
                st.pc.append(z3.And(t >= A.term(st, lo, 64), t <= A.term(st, hi, 64)))
            st.inputs.append(('u64', nm, v))
            s.pin(st, v, 64, 'int')
            if e.check(st) != 'sat': s.stop()
            # enumerate: each feasible value becomes its own path (re-executes this call in forks is not
            # possible since the input is already recorded, so fork here directly)
            vals = []
            extra = []
            while True:
                r, m = e.check(st, z3.And(*extra) if extra else None, want_model=True)
                if r != 'sat': break
                x = m.eval(t, model_completion=True).as_long(); vals.append(x); extra.append(t != x)
                if len(vals) > e.cfg.concretize_limit: raise Inconclusive('vf_nondet_range too wide')
            ins = stack[-1].f.blocks[stack[-1].bb].instrs[stack[-1].ip - 1]
            for x in vals[1:]:
                st2, stack2 = e.fork(st, stack)
                st2.pc.append(t == x)
                if ins.res: stack2[-1].loc[ins.res] = x
                if ins.op == 'invoke': e.goto(stack2[-1], ins.extra['normal'])
                work.append((st2, stack2))
            st.pc.append(t == vals[0])
            return vals[0]
        tk, bits = s.NONDET[kind]
        nm = f'in!{len(st.inputs)}!{kind}'      # path-local call index: the same input has the same name in every flavour
        if tk == 'int':
            v = A.fresh(st, nm, bits)
            if kind == 'bool':
                t = A.term(st, v, 8)
                st.pc.append(z3.ULE(t, 1) if A.name == 'BITS' else t <= 1)
        elif A.real:
            v = z3.Real(nm)
            if kind.startswith('unit_'):
                st.pc.append(z3.And(v >= 0, v < 1))
        else:
            v = z3.BitVec(nm, bits)
            if kind.startswith('unit_'):
                f = A.fp(v, tk)
                st.pc.append(z3.And(z3.fpGEQ(f, z3.FPVal(0.0, FSORT[tk])), z3.fpLT(f, z3.FPVal(1.0, FSORT[tk]))))
        st.inputs.append((kind, nm, v))
        s.pin(st, v, bits, tk)
        return v

    def pin(s, st, v, bits, tk):
        """differential run: constrain the fresh input to the next pinned concrete value"""
        e = s.eng
        if e.cfg.pinned is None:
            return
        i = len(st.inputs) - 1
        if i >= len(e.cfg.pinned):
            raise Inconclusive('pinned run: more inputs requested than supplied')
        x = e.cfg.pinned[i]
        A = e.A
        if tk == 'int':
            t = A.term(st, v, bits)
            st.pc.append(t == (x & MASK(bits)))
        elif A.real:
            st.pc.append(v == z3.RealVal(str(Fraction(x))))
        else:
            st.pc.append(v == z3.BitVecVal(x, bits))

    def x_vf_assume(s, st, stack, work, args, ins):
        c = args[0]
        e = s.eng
        if isinstance(c, int):
            if not c: s.stop()
            return None
        st.pc.append(c)
        r = e.check(st)
        if r == 'unsat': s.stop()
        if r == 'unknown': raise Inconclusive('solver unknown on vf_assume')
        return None

    def x_vf_assert(s, st, stack, work, args, ins):
        e = s.eng
        c, site = args
        rec = e.asserts.setdefault(site, {'reached': 0, 'proved': 0, 'failed': 0, 'unknown': 0, 'witness': None})
        rec['reached'] += 1
        st.asserted.append((site, c))
        if isinstance(c, int) and c:
            rec['proved'] += 1
            if rec['witness'] is None: rec['witness'] = 'condition is constant true on a feasible path'
            return None
        if not isinstance(c, int) and e.undef_vars(c) and e.undef_dependence(st, c):
            # the asserted observable is a function of uninitialised data: reported as such (replayed under valgrind),
            # not as a plain assertion failure whose garbage values could not be reproduced natively
            rec['failed'] += 1
            e.fail(st, 'UNINIT-DECISION', f'value checked at vf_assert site {site} depends on uninitialised data', site=site, stack=stack)
            s.stop()
        neg = z3.BoolVal(True) if isinstance(c, int) else z3.Not(c)
        r, m = e.check(st, neg, want_model=True, important=True)
        if r == 'unsat':
            rec['proved'] += 1
            if rec['witness'] is None:
                r2, m2 = e.check(st, want_model=True)
                if r2 == 'sat':
                    rec['witness'] = {i['name']: i['value'] for i in e.model_inputs(st, m2)[:12]}
        elif r == 'sat':
            rec['failed'] += 1
            e.fail(st, 'ASSERT-FAIL', f'vf_assert site {site}', site=site, model=m, stack=stack)
            # continue the path under the asserted condition so that later sites are still examined
            if isinstance(c, int): s.stop()
            st.pc.append(c)
            if e.check(st) != 'sat': s.stop()
        else:
            rec['unknown'] += 1
            e.note_inconclusive(f'solver unknown on vf_assert site {site}')
        return None

    def x_vf_buffer(s, st, stack, work, args, ins):
        e = s.eng
        n = args[0]
        oid = e.alloc(st, n if isinstance(n, int) else (n if e.A.name == 'BITS' else e.A.U(st, n)), 'buffer')
        return Ptr(oid, 0)

    def x_vf_ptrdiff(s, st, stack, work, args, ins):
        a, b = args
        e = s.eng
        if not (isinstance(a, Ptr) and isinstance(b, Ptr)) or a.obj != b.obj:
            e.fail(st, 'FOREIGN-POINTER', f'pointer {a} does not point into the expected object {b}', stack=stack)
            s.stop()
        if e.A.name == 'BITS':
            return e.A.binop(st, 'sub', a.off, b.off, 64)
        return e.A.mk(a.off - b.off, 64)

    def x_vf_same_object(s, st, stack, work, args, ins):
        a, b = args
        return int(isinstance(a, Ptr) and isinstance(b, Ptr) and a.obj == b.obj and a.obj is not None)

    def x_vf_heap_live(s, st, stack, work, args, ins):
        return sum(1 for k, o in st.mem.items() if o.live and o.kind in ('new', 'new[]'))

    def x_vf_probe_calls(s, st, stack, work, args, ins):
        return len(st.probe)

    def x_vf_probe_reset(s, st, stack, work, args, ins):
        st.probe = []
        return None

    def x_vf_probe_note(s, st, stack, work, args, ins):
        """called by the probe backend: records the coordinate (n, c0..c3 as u64 / f64 bits)"""
        st.probe.append(list(args))
        return None

    x_vf_probe_note_r = x_vf_probe_note

    def x_vf_probe_arg_r(s, st, stack, work, args, ins):
        return s.x_vf_probe_arg(st, stack, work, args, ins)

    def x_vf_probe_arg(s, st, stack, work, args, ins):
        call, k = args
        if not isinstance(call, int) or not isinstance(k, int):
            raise Inconclusive('symbolic probe index')
        if call >= len(st.probe):
            s.eng.fail(st, 'ASSERT-FAIL', f'probe call {call} requested but only {len(st.probe)} were made', site=-1, stack=stack)
            s.stop()
        return st.probe[call][k]

    def x_vf_region_begin(s, st, stack, work, args, ins):
        sh = st.foot['shared'] if st.foot else set()
        st.foot = {'on': True, 'mark': st.nobj, 'shared': set(sh), 'stores': set(), 'loads': set(), 'outer_stores': set(),
                   'mutable_globals': set(), 'atomics': set(), 'indirect_calls': set(), 'externals': set()}
        return None

    def x_vf_share(s, st, stack, work, args, ins):
        """declare the object behind the pointer as shared between threads (C16): stores to it inside a region count"""
        if st.foot is None:
            st.foot = {'on': False, 'mark': 0, 'shared': set(), 'stores': set(), 'loads': set(), 'outer_stores': set(),
                       'mutable_globals': set(), 'atomics': set(), 'indirect_calls': set(), 'externals': set()}
        if isinstance(args[0], Ptr) and args[0].obj is not None:
            st.foot['shared'].add(args[0].obj)
        return None

    def x_vf_concurrently(s, st, stack, work, args, ins):
        """call fn(ctx) once inside a footprint region; the region is closed by the harness (vf_region_end)"""
        e = s.eng
        fp, ctx = args
        if not (isinstance(fp, Ptr) and fp.obj is not None and fp.obj[0] == 'g'):
            raise Inconclusive('vf_concurrently: not a function pointer')
        f = e.mod.funcs.get(fp.obj[1])
        if f is None: raise Inconclusive('vf_concurrently: unknown function')
        s.x_vf_region_begin(st, stack, work, [0], ins)
        from symex import Frame
        fr = stack[-1]
        fr.calling = ins
        stack.append(Frame(f, [ctx]))
        e.funcs_entered.add(fp.obj[1])
        return s.RAISED     # control continues in the callee; the result (void) is delivered on return

    def x_vf_region_end(s, st, stack, work, args, ins):
        f = st.foot
        if f is not None:
            f['on'] = False
            s.eng.footprints = getattr(s.eng, 'footprints', [])
            s.eng.footprints.append({k: sorted(map(str, v)) if isinstance(v, set) else v for k, v in f.items()})
        return None

    def x_vf_region_outer_stores(s, st, stack, work, args, ins):
        return len(st.foot['outer_stores']) if st.foot else 0

    def x_vf_region_bad(s, st, stack, work, args, ins):
        f = st.foot
        return len(f['mutable_globals']) + len(f['atomics']) if f else 0

    def x_vf_thrown_is(s, st, stack, work, args, ins):
        """1 iff the exception last thrown had the typeinfo whose mangled name contains the given C string id:
        1=runtime_error 2=logic_error 3=bad_alloc/length 4=other"""
        want = args[0]
        last = None
        for ev in st.events:
            if ev[0] == 'throw': last = ev[1]
        cls = 4
        if last is None: cls = 0
        elif 'runtime_error' in str(last): cls = 1
        elif 'logic_error' in str(last): cls = 2
        elif 'bad_alloc' in str(last) or 'bad_array' in str(last) or 'length_error' in str(last): cls = 3
        return int(cls == want)

    # uninterpreted functions ------------------------------------------------------
    def uf(s, st, realargs, rk, args):
        e = s.eng; A = e.A
        fid = args[0]
        if not isinstance(fid, int): raise Inconclusive('symbolic UF id')
        name = f'UF{fid}_{rk}{"r" if realargs else ""}'
        nargs = len(args) - 1
        if A.name == 'BITS':
            f = e.ufs.get(name)
            if f is None:
                rs = z3.BitVecSort(32 if rk == 'f32' else 64)
                f = z3.Function(name, *([z3.BitVecSort(64)] * nargs), rs); e.ufs[name] = f
            zs = [A.bv(a, 64) for a in args[1:]]
            r = f(*zs)
        else:
            f = e.ufs.get(name)
            if f is None:
                asort = z3.RealSort() if realargs else z3.IntSort()
                rs = z3.IntSort() if rk == 'u64' else z3.RealSort()
                # last argument (component) is always an integer
                f = z3.Function(name, *([asort] * (nargs - 1)), z3.IntSort(), rs); e.ufs[name] = f
            zs = []
            for i, a in enumerate(args[1:]):
                if realargs and i < nargs - 1:
                    zs.append(A.rterm(a))
                else:
                    zs.append(A.term(st, a, 64))
            zs = [z3.simplify(z) for z in zs]
            r = f(*zs)
            if rk == 'u64':
                st.pc.append(z3.And(r >= 0, r < (1 << 64)))
                st.ufcalls.append((name, zs, r))
                return IntV(r, 64, True)
        st.ufcalls.append((name, zs, r))
        return r

    def eq_real(s, st, args, k):
        e = s.eng; A = e.A
        a, b = args[0], args[1]
        if A.real:
            if isinstance(a, Fraction) and isinstance(b, Fraction): return int(a == b)
            x, y = A.rterm(a), A.rterm(b)
            # own polynomial normal form first: identity of two polynomial expressions is decided without the solver
            try:
                from poly import poly_of, poly_sub, poly_is_zero
                if poly_is_zero(poly_sub(poly_of(x), poly_of(y))):
                    return 1
            except Exception:
                pass
            d = z3.simplify(x - y, som=True)
            if z3.is_rational_value(d):
                return int(d.numerator_as_long() == 0)
            return simp_bool(d == 0)
        # BITS mode: bitwise equality or both zero (+0 == -0) -- used by exact (lattice) harnesses
        kind = 'float' if k == 'f32' else 'double'
        return A.fcmp(st, 'oeq', a, b, kind)

    def coord(s, st, args, k):
        """vf_coord(i, a): the coordinate i + a with i a non-negative integer and 0 <= a < 1 (REAL mode input shape)"""
        e = s.eng; A = e.A
        i, a = args
        if not A.real:
            raise Inconclusive('vf_coord outside REAL mode')
        it = A.U(st, i) if not isinstance(i, int) else i
        x = (z3.ToReal(it) if not isinstance(it, int) else z3.RealVal(it)) + A.rterm(a)
        st.shape[x.get_id()] = (it, a)
        st.keep.append(x)
        return x

    # ------------------------------------------------------------------ heap
    def alloc_size(s, st, stack, work, n, what):
        e = s.eng
        if isinstance(n, int):
            return n
        t = e.A.term(st, n, 64)
        if e.undef_vars(t) and e.undef_dependence(st, t == z3.Const('alloc!probe', t.sort())) is not None:
            pass
        if e.undef_vars(t):
            # does the size really vary with the uninitialised bytes?
            uv = e.undef_vars(t)
            subs = [(v, z3.Const(str(v) + "'", v.sort())) for v in uv]
            t2 = z3.substitute(t, *subs)
            pc2 = [z3.substitute(p, *subs) for p in st.pc]
            if e.check(st, z3.And(*pc2, t != t2)) == 'sat':
                e.fail(st, 'UNINIT-DECISION', f'{what} in {stack[-1].f.name} depends on uninitialised data', stack=stack)
                s.stop()
        if e.A.name != 'BITS' and getattr(e.cfg, 'symbolic_alloc', False):
            return e.A.U(st, n)
        return e.concretize(st, stack, work, n, 64, what)

    def do_new(s, st, stack, work, args, kind):
        n = s.alloc_size(st, stack, work, args[0], 'allocation size')
        e = s.eng
        lim = getattr(e.cfg, 'max_alloc', 1 << 62)
        if isinstance(n, int) and n > lim:
            # the model never fails an allocation; absurd sizes are reported to the harness as bad_alloc
            e.raise_exc(st, stack, '@_ZTISt9bad_alloc', from_call=stack[-1].f.blocks[stack[-1].bb].instrs[stack[-1].ip - 1])
            return s.RAISED
        oid = e.alloc(st, n, kind)
        if isinstance(n, int): st.heap_bytes += n
        return Ptr(oid, 0)

    def x__Znwm(s, st, stack, work, args, ins): return s.do_new(st, stack, work, args, 'new')
    def x__Znam(s, st, stack, work, args, ins): return s.do_new(st, stack, work, args, 'new[]')
    def x__ZnwmSt11align_val_t(s, st, stack, work, args, ins): return s.do_new(st, stack, work, args, 'new')
    def x__ZnamSt11align_val_t(s, st, stack, work, args, ins): return s.do_new(st, stack, work, args, 'new[]')

    def do_delete(s, st, stack, args, kind):
        e = s.eng
        p = args[0]
        if not isinstance(p, Ptr):
            if p == 0: return None
            raise Inconclusive('delete of an integer')
        if p.obj is None:
            if e.A.off_conc(p.off) == 0: return None
            e.fail(st, 'BAD-FREE', f'delete of wild pointer {p}', stack=stack); s.stop()
        if p.obj in st.dead:
            e.fail(st, 'DOUBLE-FREE', f'delete of already freed object {p.obj}', stack=stack); s.stop()
        ob = st.mem.get(p.obj)
        if ob is None:
            raise Inconclusive(f'delete of unknown object {p.obj}')
        if e.A.off_conc(p.off) != 0:
            e.fail(st, 'BAD-FREE', f'delete of interior pointer {p}', stack=stack); s.stop()
        if ob.kind != kind:
            e.fail(st, 'MISMATCHED-DELETE', f'{ob.kind} object released with {"delete[]" if kind == "new[]" else "delete"}', stack=stack)
            s.stop()
        e.free_obj(st, p.obj)
        return None

    def x__ZdlPv(s, st, stack, work, args, ins): return s.do_delete(st, stack, args, 'new')
    def x__ZdaPv(s, st, stack, work, args, ins): return s.do_delete(st, stack, args, 'new[]')
    def x__ZdlPvm(s, st, stack, work, args, ins): return s.do_delete(st, stack, args, 'new')
    def x__ZdaPvm(s, st, stack, work, args, ins): return s.do_delete(st, stack, args, 'new[]')
    def x__ZdlPvSt11align_val_t(s, st, stack, work, args, ins): return s.do_delete(st, stack, args, 'new')
    def x__ZdaPvSt11align_val_t(s, st, stack, work, args, ins): return s.do_delete(st, stack, args, 'new[]')
    def x__ZdlPvmSt11align_val_t(s, st, stack, work, args, ins): return s.do_delete(st, stack, args, 'new')

    # CUDA runtime shim (C05, host->device array): device memory is an ordinary heap object of kind 'cuda'
    def x_vf_cudaMalloc(s, st, stack, work, args, ins):
        e = s.eng
        n = s.alloc_size(st, stack, work, args[1], 'cudaMalloc size')
        oid = e.alloc(st, n, 'cuda')
        e.store(st, args[0], Ty('ptr', elem=Ty('int', 8)), Ptr(oid, 0), stack)
        return 0

    def x_cudaFree(s, st, stack, work, args, ins):
        e = s.eng
        p = args[0]
        if isinstance(p, Ptr) and p.obj is None and e.A.off_conc(p.off) == 0:
            return 0
        if not isinstance(p, Ptr) or p.obj is None:
            e.fail(st, 'BAD-FREE', f'cudaFree of wild pointer {p}', stack=stack); s.stop()
        if p.obj in st.dead:
            e.fail(st, 'DOUBLE-FREE', f'cudaFree of already freed object {p.obj}', stack=stack); s.stop()
        ob = st.mem.get(p.obj)
        if ob is None or ob.kind != 'cuda' or e.A.off_conc(p.off) != 0:
            e.fail(st, 'MISMATCHED-DELETE', f'cudaFree of a pointer that cudaMalloc did not return ({p})', stack=stack); s.stop()
        e.free_obj(st, p.obj)
        return 0

    def x_cudaMemcpy(s, st, stack, work, args, ins):
        s.mem_copy(st, stack, work, args[:3], 'memcpy')
        return 0

    def x_cudaGetErrorString(s, st, stack, work, args, ins):
        return Ptr(None, 0)

    def x_vf_cuda_live(s, st, stack, work, args, ins):
        return sum(1 for k, o in st.mem.items() if o.live and o.kind == 'cuda')

    def x_memcpy(s, st, stack, work, args, ins):
        s.mem_copy(st, stack, work, args, 'memcpy'); return args[0]

    def x_memmove(s, st, stack, work, args, ins):
        s.mem_copy(st, stack, work, args, 'memmove'); return args[0]

    def x_memset(s, st, stack, work, args, ins):
        s.mem_set(st, stack, work, args); return args[0]

    def x_memcmp(s, st, stack, work, args, ins):
        """byte-wise comparison; result is the sign of the first differing byte pair (as int32)"""
        e = s.eng; A = e.A
        n = args[2]
        if not isinstance(n, int):
            n = e.concretize(st, stack, work, n, 64, 'memcmp length')
        if n == 0:
            return 0
        if A.name != 'BITS':
            raise Inconclusive('memcmp in INT mode')
        a = e.loadbytes(st, args[0], n, 'memcmp', stack); b = e.loadbytes(st, args[1], n, 'memcmp', stack)
        r = 0
        for x, y in reversed(list(zip(a, b))):
            lt = A.icmp(st, 'ult', x, y, 8); ne = A.icmp(st, 'ne', x, y, 8)
            r = A.ite(st, ne, A.ite(st, lt, MASK(32), 1, 32), r, 32)
        return r

    x_bcmp = x_memcmp

    def mem_copy(s, st, stack, work, args, what):
        e = s.eng
        n = args[2]
        if not isinstance(n, int):
            n = e.concretize(st, stack, work, n, 64, what + ' length')
        if what == 'memcpy' and n and isinstance(args[0], Ptr) and isinstance(args[1], Ptr) and args[0].obj == args[1].obj and args[0].obj is not None:
            a, b = e.A.off_conc(args[0].off), e.A.off_conc(args[1].off)
            if a is not None and b is not None and a != b and a < b + n and b < a + n:
                e.fail(st, 'MEMCPY-OVERLAP', f'memcpy with overlapping ranges {args[0]} {args[1]} n={n}', stack=stack)
        if n:
            e.copy_range(st, args[0], args[1], n, what, stack)

    def mem_set(s, st, stack, work, args):
        e = s.eng
        d, b, n = args[0], args[1], args[2]
        if not isinstance(b, int):
            raise Inconclusive('memset with symbolic byte')
        b &= 255
        if not isinstance(n, int):
            ob = st.mem.get(d.obj) if isinstance(d, Ptr) else None
            if ob is not None and not isinstance(ob.size, int) and e.A.off_conc(d.off) == 0:
                # whole-object fill of a symbolic-size allocation (value-initialising make_unique<T[]>)
                nt = e.A.term(st, n, 64)
                if e.check(st, nt != ob.size) == 'unsat':
                    ob2 = e.getobj(st, d, 'memset', write=True, stack=stack)
                    ob2.cells = {}; ob2.fill = b
                    return
            n = e.concretize(st, stack, work, n, 64, 'memset length')
        e.set_range(st, d, b, n, stack)

    # ------------------------------------------------------------------ exceptions / termination
    def x___cxa_allocate_exception(s, st, stack, work, args, ins):
        return Ptr(s.eng.alloc(st, args[0] if isinstance(args[0], int) else 64, 'exc'), 0)

    def x___cxa_free_exception(s, st, stack, work, args, ins):
        return None

    def x___cxa_throw(s, st, stack, work, args, ins):
        tin = ins.ops[2]
        tin = tin.ops[0].v if tin.k == 'cexpr' else tin.v
        s.eng.raise_exc(st, stack, tin, args[0], from_call=ins)
        return s.RAISED

    def x___cxa_rethrow(s, st, stack, work, args, ins):
        s.eng.raise_exc(st, stack, st.exc[0] if st.exc else 'rethrow', from_call=ins)
        return s.RAISED

    def x___cxa_begin_catch(s, st, stack, work, args, ins):
        st.events.append(('caught', st.exc[0] if st.exc else None))
        return args[0]

    def x___cxa_end_catch(s, st, stack, work, args, ins):
        st.exc = None
        return None

    def x___cxa_atexit(s, st, stack, work, args, ins): return 0
    def x___cxa_guard_acquire(s, st, stack, work, args, ins):
        if st.foot is not None and st.foot.get('on'):
            st.foot['mutable_globals'].add('static-local-guard')
            return 0
        raise Inconclusive('function-local static initialisation')

    def thrower(tinfo):
        def h(s, st, stack, work, args, ins):
            s.eng.raise_exc(st, stack, tinfo, from_call=ins)
            return s.RAISED
        return h

    x__ZSt17__throw_bad_allocv = thrower('@_ZTISt9bad_alloc')
    x__ZSt28__throw_bad_array_new_lengthv = thrower('@_ZTISt20bad_array_new_length')
    x___cxa_throw_bad_array_new_length = thrower('@_ZTISt20bad_array_new_length')
    x__ZSt25__throw_bad_function_callv = thrower('@_ZTISt17bad_function_call')
    x__ZSt20__throw_length_errorPKc = thrower('@_ZTISt12length_error')
    x__ZSt19__throw_logic_errorPKc = thrower('@_ZTISt11logic_error')
    x__ZSt24__throw_out_of_range_fmtPKcz = thrower('@_ZTISt12out_of_range')
    x__ZSt20__throw_out_of_rangePKc = thrower('@_ZTISt12out_of_range')
    x__ZSt21__throw_runtime_errorPKc = thrower('@_ZTISt13runtime_error')
    x__ZSt16__throw_bad_castv = thrower('@_ZTISt8bad_cast')

    def aborter(kind, what):
        def h(s, st, stack, work, args, ins):
            s.eng.fail(st, kind, what + ' in ' + stack[-1].f.name, stack=stack)
            s.stop()
        return h

    x__ZSt9terminatev = aborter('ABORT', 'std::terminate')
    x___clang_call_terminate = aborter('ABORT', 'std::terminate (noexcept violated)')
    x_abort = aborter('ABORT', 'abort()')
    x___assert_fail = aborter('ABORT', 'assertion failed (library assert)')
    x___cxa_pure_virtual = aborter('ABORT', 'pure virtual call')

    # ------------------------------------------------------------------ libm
    def lrint_like(kind, rbits=64):
        def h(s, st, stack, work, args, ins):
            return s.eng.A.fintr(st, 'lrint', args[0], kind, rbits) if not s.eng.A.real else s.real_lrint(st, args[0])
        return h

    x_lrintf = lrint_like('float')
    x_lrint = lrint_like('double')
    x_llrintf = lrint_like('float')
    x_llrint = lrint_like('double')

    def real_lrint(s, st, a):
        raise Inconclusive('lrint in REAL mode (rounding is decided bit-precisely in BITS mode)')

    def fp_unary(name, kind):
        def h(s, st, stack, work, args, ins):
            return s.eng.A.fintr(st, name, args[0], kind)
        return h

    def fp_minmax(which, kind):
        def h(s, st, stack, work, args, ins):
            return s.eng.A.fminmax(st, which, args[0], args[1], kind)
        return h

    x_fminf = fp_minmax('min', 'float'); x_fmin = fp_minmax('min', 'double')
    x_fmaxf = fp_minmax('max', 'float'); x_fmax = fp_minmax('max', 'double')
    x_truncf = fp_unary('trunc', 'float'); x_trunc = fp_unary('trunc', 'double')
    x_floorf = fp_unary('floor', 'float'); x_floor = fp_unary('floor', 'double')
    x_ceilf = fp_unary('ceil', 'float'); x_ceil = fp_unary('ceil', 'double')
    x_rintf = fp_unary('rint', 'float'); x_rint = fp_unary('rint', 'double')
    x_nearbyintf = fp_unary('nearbyint', 'float'); x_nearbyint = fp_unary('nearbyint', 'double')
    x_roundf = fp_unary('round', 'float'); x_round = fp_unary('round', 'double')
    x_fabsf = fp_unary('fabs', 'float'); x_fabs = fp_unary('fabs', 'double')

    # ------------------------------------------------------------------ llvm intrinsics
    def llvm(s, st, stack, work, name, args, ins):
        e = s.eng; A = e.A
        n = name[len('@llvm.'):]
        if n.startswith('lifetime.start'):
            p = args[1]
            if isinstance(p, Ptr) and p.obj in st.mem:
                ob = e.getobj_nocheck(st, p.obj)
                ob.scoped = False; ob.cells = {}; ob.fill = None
            return None
        if n.startswith('lifetime.end'):
            p = args[1]
            if isinstance(p, Ptr) and p.obj in st.mem:
                ob = e.getobj_nocheck(st, p.obj)
                ob.scoped = True
            return None
        if n.startswith('memcpy') or n.startswith('memmove'):
            s.mem_copy(st, stack, work, args, 'memcpy' if n.startswith('memcpy') else 'memmove'); return None
        if n.startswith('memset'):
            s.mem_set(st, stack, work, args); return None
        if n.startswith('umul.with.overflow'):
            bits = int(n.rsplit('.i', 1)[1]); r, o = A.umulo(st, args[0], args[1], bits); return Agg([r, o])
        m = re.match(r'([us](?:add|sub|mul))\.with\.overflow\.i(\d+)', n)
        if m:
            r, o = A.addo(st, m.group(1), args[0], args[1], int(m.group(2))); return Agg([r, o])
        m = re.match(r'(umax|umin|smax|smin|ctpop|ctlz|cttz|bswap|abs|fshl|fshr)\.i(\d+)', n)
        if m:
            return A.intrin_int(st, m.group(1), args, int(m.group(2)))
        if n == 'x86.bmi.pdep.64':
            return A.intrin_int(st, 'pdep64', args, 64)
        m = re.match(r'(trunc|fabs|floor|ceil|rint|nearbyint|round)\.(f32|f64)', n)
        if m:
            return A.fintr(st, m.group(1), args[0], 'float' if m.group(2) == 'f32' else 'double')
        m = re.match(r'(minnum|maxnum|minimum|maximum)\.(f32|f64)', n)
        if m:
            return A.fminmax(st, 'min' if m.group(1).startswith('min') else 'max', args[0], args[1], 'float' if m.group(2) == 'f32' else 'double')
        m = re.match(r'(lrint|llrint)\.i(\d+)\.(f32|f64)', n)
        if m:
            if A.real: s.real_lrint(st, args[0])
            return A.fintr(st, 'lrint', args[0], 'float' if m.group(3) == 'f32' else 'double', int(m.group(2)))
        if n == 'ubsantrap':
            k = args[0]
            e.fail(st, 'UB-' + UBSAN_KINDS.get(k, str(k)), f'UBSan check "{UBSAN_KINDS.get(k, k)}" fails in {stack[-1].f.name}', stack=stack)
            s.stop()
        if n in ('trap', 'debugtrap'):
            e.fail(st, 'ABORT', f'llvm.trap in {stack[-1].f.name}', stack=stack); s.stop()
        if n == 'assume':
            c = args[0]
            if isinstance(c, int):
                if not c:
                    e.fail(st, 'UB-assume', f'llvm.assume(false) in {stack[-1].f.name}', stack=stack); s.stop()
                return None
            if e.check(st, z3.Not(c)) == 'sat':
                e.fail(st, 'UB-assume', f'llvm.assume can be false in {stack[-1].f.name}', extra=z3.Not(c), stack=stack)
                st.pc.append(c)
                if e.check(st) != 'sat': s.stop()
            return None
        if n.startswith('expect'):
            return args[0]
        if n.startswith('objectsize'):
            return MASK(64)
        if n.startswith('is.constant'):
            return 0
        if n.startswith('eh.typeid.for'):
            return 2
        if n.startswith('fmuladd') or n.startswith('fma.'):
            raise Inconclusive('fused multiply-add (IR must be built with -ffp-contract=off)')
        if n.startswith('donothing') or n.startswith('var.annotation') or n.startswith('sideeffect'):
            return None
        raise Inconclusive('unmodelled intrinsic ' + name)

    # ------------------------------------------------------------------ streams
    def new_stream_obj(s, st, sm, is_input):
        e = s.eng
        vb = ISTREAM_VBASE if is_input else OSTREAM_VBASE
        sm.vbase = vb
        oid = e.alloc(st, 0x200, 'stream')
        vt = e.alloc(st, 64, 'vtable')
        p = Ptr(oid, 0)
        e.store_raw(st, Ptr(vt, 0), 8, vb)                 # vptr[-3] = vbase offset
        e.store_raw(st, Ptr(vt, 8), 8, 0)                  # offset-to-top
        e.store_raw(st, Ptr(oid, 0), 8, Ptr(vt, 24))       # vptr
        if is_input:
            e.store_raw(st, Ptr(oid, 8), 8, 0)             # _M_gcount
        e.store_raw(st, Ptr(oid, vb + STATE_OFF), 4, 0)    # ios_base::_M_streambuf_state
        e.store_raw(st, Ptr(oid, vb + 28), 4, 0)           # ios_base::_M_exception (no exceptions mask)
        st.streams[oid] = sm
        return p

    def x_vf_ostream(s, st, stack, work, args, ins):
        return s.new_stream_obj(st, Stream(), False)

    def x_vf_istream_from(s, st, stack, work, args, ins):
        """(ostream*, len, fail_at): input stream over the first len bytes written to the ostream;
        reads with index >= fail_at fail (pass SIZE_MAX for never)"""
        e = s.eng
        src = st.streams[args[0].obj]
        sm = Stream(); sm.data = list(src.data); sm.len = args[1]
        fa = args[2] if len(args) > 2 else MASK(64)
        sm.fail_at = None if (isinstance(fa, int) and fa == MASK(64)) else fa
        if not isinstance(sm.len, int):
            t = e.A.term(st, sm.len, 64)
            lim = len(sm.data)
            st.pc.append(z3.ULE(t, lim) if e.A.name == 'BITS' else t <= lim)
        elif sm.len > len(sm.data):
            raise Inconclusive('vf_istream_from: length beyond the written data')
        return s.new_stream_obj(st, sm, True)

    def x_vf_istream_bytes(s, st, stack, work, args, ins):
        """input stream of n fresh symbolic bytes (n concrete)"""
        e = s.eng
        n = args[0]
        if not isinstance(n, int): raise Inconclusive('vf_istream_bytes with symbolic length')
        sm = Stream(); sm.len = n
        for i in range(n):
            nm = f'in!{len(st.inputs)}!u8'; v = e.A.fresh(st, nm, 8); st.inputs.append(('u8', nm, v)); s.pin(st, v, 8, 'int')
            sm.data.append(v)
        return s.new_stream_obj(st, sm, True)

    def x_vf_stream_len(s, st, stack, work, args, ins):
        return len(st.streams[args[0].obj].data)

    def x_vf_stream_byte(s, st, stack, work, args, ins):
        sm = st.streams[args[0].obj]; i = args[1]
        if not isinstance(i, int): raise Inconclusive('vf_stream_byte with symbolic index')
        if i >= len(sm.data):
            s.eng.fail(st, 'ASSERT-FAIL', f'stream byte {i} requested, only {len(sm.data)} written', site=-2, stack=stack); s.stop()
        b = sm.data[i]
        if isinstance(b, tuple): raise Inconclusive('pointer byte written to a stream')
        return b

    def x_vf_stream_set_byte(s, st, stack, work, args, ins):
        sm = st.streams[args[0].obj]; i = args[1]
        if not isinstance(i, int): raise Inconclusive('vf_stream_set_byte with symbolic index')
        sm.data[i] = args[2]
        return None

    def x_vf_stream_set_u32(s, st, stack, work, args, ins):
        sm = st.streams[args[0].obj]; i = args[1]
        if not isinstance(i, int): raise Inconclusive('vf_stream_set_u32 with symbolic index')
        bs = s.eng.A.to_bytes(args[2], 4)
        for k in range(4): sm.data[i + k] = bs[k]
        return None

    def x_vf_istream_pos(s, st, stack, work, args, ins):
        return st.streams[args[0].obj].pos

    def x_vf_istream_nreads(s, st, stack, work, args, ins):
        return st.streams[args[0].obj].nreads

    def x_vf_stream_state(s, st, stack, work, args, ins):
        sm = st.streams[args[0].obj]
        return s.eng.load_raw(st, Ptr(args[0].obj, sm.vbase + STATE_OFF), 4)

    def set_state(s, st, p, sm, bits):
        """basic_ios::setstate: ors the bits in; returns True when the stream's exception mask asks for ios_base::failure"""
        e = s.eng
        cur = e.load_raw(st, Ptr(p.obj, sm.vbase + STATE_OFF), 4)
        new = cur | bits if isinstance(cur, int) else e.A.binop(st, 'or', cur, bits, 32)
        e.store_raw(st, Ptr(p.obj, sm.vbase + STATE_OFF), 4, new)
        return s.mask_hit(st, Ptr(p.obj, sm.vbase), new)

    def mask_hit(s, st, ios_base, state):
        mask = s.eng.load_raw(st, Ptr(ios_base.obj, s.eng.A.off_add(st, ios_base.off, STATE_OFF - 4, 64, 1)), 4)     # ios_base::_M_exception
        if isinstance(mask, int) and mask == 0:
            return False
        if isinstance(mask, int) and isinstance(state, int):
            return (mask & state) != 0
        raise Inconclusive('symbolic stream exception mask / state')

    IOS_FAILURE = '@_ZTINSt8ios_base7failureB5cxx11E'

    def x__ZNSo5writeEPKcl(s, st, stack, work, args, ins):
        e = s.eng
        this = args[0]
        sm = st.streams.get(this.obj) if isinstance(this, Ptr) else None
        if sm is None: raise Inconclusive('ostream::write on a stream the engine does not own')
        n = args[2]
        if not isinstance(n, int): n = e.concretize(st, stack, work, n, 64, 'ostream::write length')
        if n >= 1 << 63:
            raise Inconclusive('negative ostream::write length')
        bs = e.loadbytes(st, args[1], n, 'ostream::write source', stack)
        # serialising uninitialised bytes: the output of dump() then depends on stale heap/stack contents
        # (native replay: the replay runtime's stream buffer asks valgrind whether the written bytes are defined)
        for b in bs:
            if not isinstance(b, (int, tuple)) and e.undef_vars(b):
                e.fail(st, 'UNINIT-DECISION', f'ostream::write in {stack[-1].f.name} serialises uninitialised bytes', stack=stack)
                break
        st.streams[this.obj] = sm
        sm.data += bs
        return this

    def x__ZNSi4readEPcl(s, st, stack, work, args, ins):
        e = s.eng; A = e.A
        this = args[0]
        sm = st.streams.get(this.obj) if isinstance(this, Ptr) else None
        if sm is None: raise Inconclusive('istream::read on a stream the engine does not own')
        n = args[2]
        if not isinstance(n, int): n = e.concretize(st, stack, work, n, 64, 'istream::read length')
        st.events.append(('read', sm.pos, n))
        gc = Ptr(this.obj, 8)
        if sm.failed:
            # sentry fails: nothing extracted, failbit set (again), destination untouched
            e.store_raw(st, gc, 8, 0)
            hit = s.set_state(st, this, sm, FAILBIT)
            sm.nreads += 1
            if hit:
                e.raise_exc(st, stack, s.IOS_FAILURE, from_call=ins)
                return s.RAISED
            return this
        # injected failure: reads with index >= fail_at deliver nothing
        if sm.fail_at is not None:
            c = (sm.nreads >= sm.fail_at) if isinstance(sm.fail_at, int) else \
                (z3.UGE(z3.BitVecVal(sm.nreads, 64), sm.fail_at) if A.name == 'BITS' else A.term(st, sm.fail_at, 64) <= sm.nreads)
            dec = s.decide(st, stack, work, c)
            if dec:
                sm.failed = True
                e.store_raw(st, gc, 8, 0)
                hit = s.set_state(st, this, sm, FAILBIT | BADBIT)
                st.events.append(('injected-failure', sm.nreads))
                sm.nreads += 1
                if hit:
                    e.raise_exc(st, stack, s.IOS_FAILURE, from_call=ins)
                    return s.RAISED
                return this
        ln = sm.len
        pos = sm.pos
        if isinstance(ln, int):
            full = pos + n <= ln
        else:
            lt = A.term(st, ln, 64)
            full = s.decide(st, stack, work, z3.ULE(z3.BitVecVal(pos + n, 64), lt) if A.name == 'BITS' else (pos + n <= lt))
        sm.nreads += 1
        if full:
            e.storebytes(st, args[1], sm.data[pos:pos + n], 'istream::read destination', stack)
            sm.pos = pos + n
            e.store_raw(st, gc, 8, n)
            return this
        # short read: the available bytes are delivered, the rest of the destination is left as it was
        old = e.loadbytes(st, args[1], n, 'istream::read destination', stack)
        new = []
        for j in range(n):
            if isinstance(ln, int):
                new.append(sm.data[pos + j] if pos + j < ln else old[j])
            else:
                d = sm.data[pos + j] if pos + j < len(sm.data) else 0
                lt = A.term(st, ln, 64)
                av = z3.ULT(z3.BitVecVal(pos + j, 64), lt) if A.name == 'BITS' else (pos + j < lt)
                new.append(A.ite(st, simp_bool(av), d, old[j], 8))
        e.storebytes(st, args[1], new, 'istream::read destination', stack)
        sm.failed = True
        st.events.append(('short-read', pos, n))
        if isinstance(ln, int):
            e.store_raw(st, gc, 8, max(0, ln - pos))
        else:
            e.store_raw(st, gc, 8, A.binop(st, 'sub', ln, pos, 64))
        sm.pos = ln
        if s.set_state(st, this, sm, FAILBIT | EOFBIT):
            e.raise_exc(st, stack, s.IOS_FAILURE, from_call=ins)
            return s.RAISED
        return this

    def decide(s, st, stack, work, c):
        """fork on a model-internal condition; the forked path re-executes the current call"""
        e = s.eng
        if isinstance(c, (int, bool)): return bool(c)
        c = simp_bool(c)
        if isinstance(c, int): return bool(c)
        rt = e.check(st, c)
        rf = e.check(st, z3.Not(c))
        if 'unknown' in (rt, rf): raise Inconclusive('solver unknown in stream model')
        if rt == 'sat' and rf == 'sat':
            st2, stack2 = e.fork(st, stack)
            st2.pc.append(z3.Not(c)); stack2[-1].ip -= 1
            # undo the event appended by this call in the fork
            if st2.events and st2.events[-1][0] == 'read': st2.events.pop()
            work.append((st2, stack2))
            st.pc.append(c)
            return True
        if rt == 'sat': return True
        if rf == 'sat': return False
        s.stop()

    # basic_ios state accessors (external in -O0 builds; `this` is the basic_ios subobject)
    def ios_state(s, st, this):
        return s.eng.load_raw(st, Ptr(this.obj, s.eng.A.off_add(st, this.off, STATE_OFF, 64, 1)), 4)

    def x__ZNKSt9basic_iosIcSt11char_traitsIcEE4goodEv(s, st, stack, work, args, ins):
        v = s.ios_state(st, args[0]); return s.eng.A.icmp(st, 'eq', v, 0, 32)

    def x__ZNKSt9basic_iosIcSt11char_traitsIcEE3eofEv(s, st, stack, work, args, ins):
        v = s.ios_state(st, args[0]); return s.eng.A.icmp(st, 'ne', s.eng.A.binop(st, 'and', v, EOFBIT, 32), 0, 32)

    def x__ZNKSt9basic_iosIcSt11char_traitsIcEE4failEv(s, st, stack, work, args, ins):
        v = s.ios_state(st, args[0]); return s.eng.A.icmp(st, 'ne', s.eng.A.binop(st, 'and', v, FAILBIT | BADBIT, 32), 0, 32)

    def x__ZNKSt9basic_iosIcSt11char_traitsIcEE3badEv(s, st, stack, work, args, ins):
        v = s.ios_state(st, args[0]); return s.eng.A.icmp(st, 'ne', s.eng.A.binop(st, 'and', v, BADBIT, 32), 0, 32)

    def x__ZNKSt9basic_iosIcSt11char_traitsIcEEcvbEv(s, st, stack, work, args, ins):
        v = s.ios_state(st, args[0]); return s.eng.A.icmp(st, 'eq', s.eng.A.binop(st, 'and', v, FAILBIT | BADBIT, 32), 0, 32)

    def x__ZNKSt9basic_iosIcSt11char_traitsIcEEntEv(s, st, stack, work, args, ins):
        v = s.ios_state(st, args[0]); return s.eng.A.icmp(st, 'ne', s.eng.A.binop(st, 'and', v, FAILBIT | BADBIT, 32), 0, 32)

    def x__ZNKSt9basic_iosIcSt11char_traitsIcEE7rdstateEv(s, st, stack, work, args, ins):
        return s.ios_state(st, args[0])

    def x__ZNKSi6gcountEv(s, st, stack, work, args, ins):
        return s.eng.load_raw(st, Ptr(args[0].obj, 8), 8)

    def x__ZNSt9basic_iosIcSt11char_traitsIcEE5clearESt12_Ios_Iostate(s, st, stack, work, args, ins):
        this = args[0]
        s.eng.store_raw(st, Ptr(this.obj, s.eng.A.off_add(st, this.off, STATE_OFF, 64, 1)), 4, args[1])
        # clear() throws ios_base::failure when the new state intersects the exception mask (this is how exceptions(mask) itself can throw)
        if s.mask_hit(st, this, args[1]):
            s.eng.raise_exc(st, stack, s.IOS_FAILURE, from_call=ins)
            return s.RAISED
        return None

    def x__ZNSt9basic_iosIcSt11char_traitsIcEE10exceptionsESt12_Ios_Iostate(s, st, stack, work, args, ins):
        # exceptions(mask): _M_exception = mask; clear(rdstate())  (out of line at -O0)
        this = args[0]; e = s.eng
        e.store_raw(st, Ptr(this.obj, e.A.off_add(st, this.off, STATE_OFF - 4, 64, 1)), 4, args[1])
        cur = e.load_raw(st, Ptr(this.obj, e.A.off_add(st, this.off, STATE_OFF, 64, 1)), 4)
        if s.mask_hit(st, this, cur):
            e.raise_exc(st, stack, s.IOS_FAILURE, from_call=ins)
            return s.RAISED
        return None

    def x__ZNKSt9basic_iosIcSt11char_traitsIcEE10exceptionsEv(s, st, stack, work, args, ins):
        this = args[0]; e = s.eng
        return e.load_raw(st, Ptr(this.obj, e.A.off_add(st, this.off, STATE_OFF - 4, 64, 1)), 4)

    def x__ZNSt8ios_base4InitC1Ev(s, st, stack, work, args, ins): return None
    def x__ZNSt8ios_base4InitD1Ev(s, st, stack, work, args, ins): return None
