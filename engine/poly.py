"""Polynomial normal form over the rationals for z3 Real terms (atoms: anything that is not +,-,*,numeral).
Used by REAL mode to decide identities of polynomial expressions (N-linear interpolation, affine composition)
without nonlinear solver search. A polynomial is {monomial: Fraction}; a monomial is a sorted tuple of atom ids."""
from fractions import Fraction
import z3

_cache = {}
_atoms = {}
LIMIT = 400000


def poly_of(t):
    k = t.get_id()
    r = _cache.get(k)
    if r is not None:
        return r
    r = _poly(t)
    _cache[k] = r
    return r


def _poly(t):
    if z3.is_rational_value(t):
        v = Fraction(t.numerator_as_long(), t.denominator_as_long())
        return {(): v} if v != 0 else {}
    if z3.is_int_value(t):
        v = Fraction(t.as_long())
        return {(): v} if v != 0 else {}
    if z3.is_app(t):
        kind = t.decl().kind()
        ch = t.children()
        if kind == z3.Z3_OP_ADD:
            r = {}
            for c in ch:
                r = poly_add(r, poly_of(c))
            return r
        if kind == z3.Z3_OP_SUB:
            r = dict(poly_of(ch[0]))
            for c in ch[1:]:
                r = poly_sub(r, poly_of(c))
            return r
        if kind == z3.Z3_OP_UMINUS:
            return {m: -c for m, c in poly_of(ch[0]).items()}
        if kind == z3.Z3_OP_MUL:
            r = {(): Fraction(1)}
            for c in ch:
                r = poly_mul(r, poly_of(c))
            return r
        if kind == z3.Z3_OP_TO_REAL:
            # ToReal distributes over integer +,-,* with numerals; keep it simple: atom unless the argument is a numeral
            if z3.is_int_value(ch[0]):
                return {(): Fraction(ch[0].as_long())}
            inner = ch[0]
            if z3.is_app(inner) and inner.decl().kind() in (z3.Z3_OP_ADD, z3.Z3_OP_SUB, z3.Z3_OP_MUL, z3.Z3_OP_UMINUS):
                return _poly_int(inner)
    a = t.get_id()
    _atoms[a] = t
    return {(a,): Fraction(1)}


def _poly_int(t):
    """integer-sorted polynomial expression under ToReal"""
    if z3.is_int_value(t):
        v = Fraction(t.as_long())
        return {(): v} if v != 0 else {}
    if z3.is_app(t):
        kind = t.decl().kind()
        ch = t.children()
        if kind == z3.Z3_OP_ADD:
            r = {}
            for c in ch:
                r = poly_add(r, _poly_int(c))
            return r
        if kind == z3.Z3_OP_SUB:
            r = dict(_poly_int(ch[0]))
            for c in ch[1:]:
                r = poly_sub(r, _poly_int(c))
            return r
        if kind == z3.Z3_OP_UMINUS:
            return {m: -c for m, c in _poly_int(ch[0]).items()}
        if kind == z3.Z3_OP_MUL:
            r = {(): Fraction(1)}
            for c in ch:
                r = poly_mul(r, _poly_int(c))
            return r
    # the atom is the ToReal of this integer term; share ids with ToReal(t) built elsewhere
    tr = z3.ToReal(t)
    a = tr.get_id()
    _atoms[a] = tr
    return {(a,): Fraction(1)}


def poly_add(p, q):
    r = dict(p)
    for m, c in q.items():
        v = r.get(m, 0) + c
        if v == 0:
            r.pop(m, None)
        else:
            r[m] = v
    return r


def poly_sub(p, q):
    r = dict(p)
    for m, c in q.items():
        v = r.get(m, 0) - c
        if v == 0:
            r.pop(m, None)
        else:
            r[m] = v
    return r


def poly_mul(p, q):
    if len(p) * len(q) > LIMIT:
        raise OverflowError('polynomial too large')
    r = {}
    for m1, c1 in p.items():
        for m2, c2 in q.items():
            m = tuple(sorted(m1 + m2))
            v = r.get(m, 0) + c1 * c2
            if v == 0:
                r.pop(m, None)
            else:
                r[m] = v
    return r


def poly_is_zero(p):
    return len(p) == 0
