import os
"""Unit lists per property and tier (DESIGN.md section 3, appendix E)."""

INFO = {}


def unit(name, harness, inst, mode='BITS', flavours=('rel',), sites=(), cfg=None, extra=(), diff=False, weight=1,
         defs=(), witness=False, timeout=600, forbid=()):
    out = []
    for fl in flavours:
        out.append({'name': f'{name}.{fl}', 'harness': harness, 'inst': inst, 'mode': mode, 'flavour': fl,
                    'sites': list(sites), 'cfg': dict(cfg or {}), 'extra': list(extra), 'diff': diff, 'weight': weight,
                    'defs': list(defs), 'witness': witness, 'timeout': timeout,
                    'forbid_fp_ops': list(forbid)})
    return out


def info(pid):
    return INFO.get(pid, {})


# ------------------------------------------------------------------------------------------------ C18
INFO['C18'] = {
    'bounds': 'round_pow2: every i in [1, 2^(w-1)] at w=8,16,32,64 (loop forks <= w+1 times, cap checked). '
              'ipow: ring recurrences for all (b,e) at 8 and 16 bit; equality with the binary-expansion product '
              'prod_j (b^(2^j))^(bit_j e) for all (b,e) at 8/16/32 bit (quick) and 64 bit (thorough); equality with the naive '
              'product for symbolic b and every exponent 0..64 at all widths (quick: 12 selected exponents); all (b,e) pairs '
              'at 8 bit against the naive loop with e<=40 quick / e<=255 thorough. '
              'Sizing consequence: C01/C05 harnesses (bounds VCs of the curve lookups).',
    'outside': 'signed T; i > 2^(w-1) (loop does not terminate, excluded by the property); induction on e for the '
               'recurrences is a stated argument, not a query',
    'cuts': 'none',
    'assumptions': ['recurrences ipow(b,0)=1, ipow(b,1)=b, ipow(b,2e)=ipow(b*b,e), ipow(b,2e+1)=b*ipow(b*b,e) characterise b^e in Z/2^w (induction on e, stated)'],
}


def units_C18(tier, seed):
    U = []
    T = {8: 'uint8_t', 16: 'uint16_t', 32: 'uint32_t', 64: 'uint64_t'}
    # (no cvc5 cross-check for the multiplication chains: printing the unflattened DAG as SMT-LIB text overflows the stack)
    bv = {'solver': 'bvsat', 'flat': False, 'cross_check': 0}
    for w, t in T.items():
        U += unit(f'c18_round_pow2_{w}', 'c18_numeric.cpp', f'round_pow2_h<{t}>()', sites=[1, 2, 3],
                  flavours=('rel', 'san'), diff=(w in (8, 64)), cfg={'loop_cap': w + 2})
        if w <= 16:
            # ring recurrences; the odd case needs associativity of a w-step product: decided at 8 and 16 bit only
            U += unit(f'c18_ipow_rec_{w}', 'c18_numeric.cpp', f'ipow_rec_h<{t}>()', sites=[1, 2, 3, 4],
                      flavours=('rel',), diff=(w == 16), cfg={'loop_cap': w + 2})
        if w <= 32 or tier == 'thorough':
            U += unit(f'c18_ipow_bin_{w}', 'c18_numeric.cpp', f'ipow_bin_h<{t}>()', sites=[1], diff=(w == 32),
                      cfg=dict(bv, loop_cap=w + 2, query_timeout_ms=120000), weight=w * w, flavours=('rel',))
        if w == 64:
            # the other 64-bit unsigned type (distinct from uint64_t on LP64)
            for e in (0, 1, 2, 3, 5, 13, 40, 63, 64):
                U += unit(f'c18_ipow_exact_ull_{e}', 'c18_numeric.cpp', f'ipow_exact_h<unsigned long long,{e}>()', sites=[1])
            U += unit('c18_round_pow2_ull', 'c18_numeric.cpp', 'round_pow2_h<unsigned long long>()', sites=[1, 2, 3], cfg={'loop_cap': w + 2})
        exps = range(0, 65) if tier == 'thorough' else (0, 1, 2, 3, 5, 8, 13, 31, 32, 33, 63, 64)
        for e in exps:
            U += unit(f'c18_ipow_exact_{w}_{e}', 'c18_numeric.cpp', f'ipow_exact_h<{t},{e}>()', sites=[1], diff=(e == 13))
    emax = 255 if tier == 'thorough' else 40
    U += unit('c18_ipow_all8', 'c18_numeric.cpp', f'ipow_all_h<uint8_t,{emax}>()', sites=[1], cfg={'loop_cap': 300}, weight=500, diff=True)
    if tier == 'thorough':
        U += unit('c18_ipow_all16_e24', 'c18_numeric.cpp', 'ipow_all_h<uint16_t,24>()', sites=[1], weight=500)
        U += unit('c18_round_pow2_8_witness', 'c18_numeric.cpp', 'round_pow2_h<uint8_t>()', defs=['VF_WITNESS'], witness=True)
    return U + sizing_units(tier)


def units(pid, tier, seed):
    f = globals().get('units_' + pid)
    if f is None:
        return None
    return f(tier, seed)


# ------------------------------------------------------------------------------------------------ C01 / C14
VEC = {'f1': 'vector::float1', 'f2': 'vector::float2', 'f3': 'vector::float3', 'f4': 'vector::float4',
       'd1': 'vector::double1', 'd2': 'vector::double2', 'd3': 'vector::double3', 'd4': 'vector::double4'}
SA = {'symbolic_alloc': True}

INFO['C01'] = {
    'bounds': 'row-major: N<=3 (+ two N=4 kernels) quick / 4 thorough, coordinate scalars size_t/unsigned/int, extents UNBOUNDED subject to '
              'prod(s)*sizeof(cell) < 2^63 (INT mode); Morton (pdep and both portable variants): N<=3 quick / 4 thorough, '
              'every extent <= 2^floor((63-log2 cell)/N); Hilbert: N=2, extents <= 2^6 quick / 2^8 thorough, non-square and '
              'non-power-of-two included; API end-to-end (construct, fill, write at symbolic coordinate, read at symbolic '
              'coordinate): extents <= 2 (N=3) / 3 (N<=2), all stored bit patterns; output width 1..4 sampled',
    'outside': 'N>4; grids whose byte size exceeds PTRDIFF_MAX; Hilbert extents above the bound',
    'cuts': 'view state built from raw bytes for the unbounded-extent kernels (constructor allocation checked separately by rowmajor_ctor)',
    'assumptions': ['a view returns a reference into its buffer: read-back and non-interference reduce to in-bounds + injectivity of the index map (checked: returned pointer lies in the buffer object, lookup performs no store to shared objects)'],
}
INFO['C14'] = {
    'bounds': 'row-major: identity idx == sum_k c_k prod_{l>k} s_l for all extents (INT mode, as C01); Morton: all coordinates '
              '< 2^floor(64/N), N=1..4, pdep == portable == reference interleave; Hilbert: 2^k squares, k<=6 quick / <=8 thorough '
              '(k=9,10 attempted in thorough with a 900 s cap, reported if undecided)',
    'outside': 'Hilbert k>10; coordinates with bits above floor(64/N) for Morton',
    'cuts': 'none',
    'assumptions': [],
}


def layout_units(tier, which):
    U = []
    th = tier == 'thorough'
    Ns = (1, 2, 3, 4) if th else (1, 2, 3)
    vs = ['f1', 'f3', 'd2', 'd4']
    k = 0
    for N in Ns:
        for C in ('size_t', 'unsigned', 'int'):
            for v in (vs if th else [vs[k % 4]]):
                k += 1
                U += unit(f'c01_rowmajor_{N}_{C}_{v}', 'c01_layouts.cpp', f'rowmajor_h<{N},{C},{VEC[v]}>()', 'INT',
                          flavours=('rel', 'san') if (C == 'size_t' or th) else ('rel',), sites=[1, 2, 3, 4, 5], cfg=SA,
                          diff=(N == 2))
    if not th:
        # the largest dimensionality in the quick tier too (a few kernels)
        U += unit('c01_rowmajor_4_size_t_f4', 'c01_layouts.cpp', f'rowmajor_h<4,size_t,{VEC["f4"]}>()', 'INT', sites=[1, 2, 3, 4, 5], cfg=SA)
        U += unit('c01_rowmajor_4_unsigned_d2', 'c01_layouts.cpp', f'rowmajor_h<4,unsigned,{VEC["d2"]}>()', 'INT', sites=[1, 2, 3, 4, 5], cfg=SA)
        if which == 'C01':
            U += unit('c01_morton_pdep_4_size_t_f4', 'c01_layouts.cpp', f'morton_h<4,size_t,{VEC["f4"]},true>()', 'BITS', extra=['-mbmi2'],
                      sites=[1, 2, 3, 5], cfg={'loop_cap': 80}, weight=10)
            U += unit('c01_morton_port_4_unsigned_d4', 'c01_layouts.cpp', f'morton_h<4,unsigned,{VEC["d4"]},false>()', 'BITS',
                      sites=[1, 2, 3, 5], cfg={'loop_cap': 80}, weight=30)
            U += unit('c01_api_rowmajor_4_size_t_f4', 'c01_layouts.cpp', f'api_h<0,4,size_t,{VEC["f4"]},2>()', 'BITS', sites=[1], weight=60,
                      cfg={'sym_cells_cap': 1024})
            U += unit('c01_api_mortonport_4_size_t_d1', 'c01_layouts.cpp', f'api_h<2,4,size_t,{VEC["d1"]},2>()', 'BITS', sites=[1], weight=60,
                      cfg={'sym_cells_cap': 1024})
    if which == 'C01':
        for N in Ns:
            U += unit(f'c01_rowmajor_ctor_{N}', 'c01_layouts.cpp', f'rowmajor_ctor_h<{N},{VEC[vs[N % 4]]}>()', 'INT',
                      sites=[1, 2, 3], cfg=SA, diff=(N == 2))
        k = 0
        for N in Ns:
            for C in ('size_t', 'unsigned', 'int'):
                if not th and C == 'int' and N != 2:
                    continue
                v = vs[k % 4]; k += 1
                U += unit(f'c01_morton_pdep_{N}_{C}_{v}', 'c01_layouts.cpp', f'morton_h<{N},{C},{VEC[v]},true>()', 'BITS',
                          extra=['-mbmi2'], sites=[1, 2, 3, 5], cfg={'loop_cap': 80}, diff=(N == 2 and C == 'size_t'), weight=10)
                U += unit(f'c01_morton_port_{N}_{C}_{v}', 'c01_layouts.cpp', f'morton_h<{N},{C},{VEC[v]},false>()', 'BITS',
                          sites=[1, 2, 3, 5], cfg={'loop_cap': 80}, flavours=('rel', 'san') if C == 'size_t' else ('rel',),
                          diff=(N == 3 and C == 'size_t'), weight=30)
                if th or N == 2:
                    U += unit(f'c01_morton_port2_{N}_{C}_{v}', 'c01_layouts.cpp', f'morton_h<{N},{C},{VEC[v]},false>()', 'BITS',
                              extra=['-mbmi2'], sites=[1, 2, 3, 5], cfg={'loop_cap': 80}, weight=30)
        K = 8 if th else 6
        for C, v in (('size_t', 'f2'), ('unsigned', 'd3')) if not th else (('size_t', 'f2'), ('unsigned', 'd3'), ('int', 'f1')):
            U += unit(f'c01_hilbert_{C}_{v}', 'c01_layouts.cpp', f'hilbert_h<{C},{VEC[v]},{K}>()', 'BITS', sites=[1, 2, 3, 5],
                      cfg={'loop_cap': 80, 'query_timeout_ms': 300000}, weight=200, timeout=1500, diff=(C == 'size_t'))
        # end to end through the public API
        for lay, lname, ex in ((0, 'rowmajor', []), (1, 'mortonpdep', ['-mbmi2']), (2, 'mortonport', []), (3, 'hilbert', [])):
            for N in ((1, 2, 3) if lay != 3 else (2,)):
                B = 2 if (N == 3 or lay == 3) else 3
                for C, v in (('size_t', vs[(N + lay) % 4]),) + ((('int', 'f2'),) if th or N == 2 else ()):
                    U += unit(f'c01_api_{lname}_{N}_{C}_{v}', 'c01_layouts.cpp', f'api_h<{lay},{N},{C},{VEC[v]},{B}>()', 'BITS',
                              extra=ex, sites=[1], flavours=('rel', 'dbg') if C == 'size_t' else ('rel',), weight=40,
                              diff=(N == 2 and C == 'size_t'))
    return U


def sizing_units(tier):
    """conversions into the curve layouts with fixed non-power-of-two extents: the only place where the library itself
    sizes Morton/Hilbert storage (ipow(round_pow2(max extent), N)); every cell access carries the engine's bounds VC"""
    return [u for u in units_C05(tier, 0) if u['name'].startswith('c05_convfixed_rowmajor_')
            or (u['name'].startswith('c05_conv_rowmajor_') and u['flavour'] == 'rel')]


def units_C01(tier, seed):
    return layout_units(tier, 'C01') + sizing_units(tier)


def units_C14(tier, seed):
    th = tier == 'thorough'
    U = [u for u in layout_units(tier, 'C14')]
    for N in (1, 2, 3, 4):
        for C in ('size_t', 'unsigned', 'int'):
            U += unit(f'c14_morton_curve_pdep_{N}_{C}', 'c01_layouts.cpp', f'morton_curve_h<{N},{C},true>()', 'BITS',
                      extra=['-mbmi2'], sites=[1, 2], diff=(N == 3 and C == 'size_t'))
            U += unit(f'c14_morton_curve_port_{N}_{C}', 'c01_layouts.cpp', f'morton_curve_h<{N},{C},false>()', 'BITS',
                      sites=[1, 2], diff=(N == 2 and C == 'size_t'))
    # the curve position is computed in the index type of the array backend beneath: a signed one
    for N in (1, 2, 3, 4):
        U += unit(f'c14_morton_curve_port_{N}_size_t_idxlong', 'c01_layouts.cpp', f'morton_curve_h<{N},size_t,false,long>()', 'BITS', extra=['-mbmi2'], sites=[1, 2])
        if N in (2, 4):
            U += unit(f'c14_morton_curve_pdep_{N}_unsigned_idxlong', 'c01_layouts.cpp', f'morton_curve_h<{N},unsigned,true,long>()', 'BITS', extra=['-mbmi2'], sites=[1, 2])
    for k in range(1, (11 if th else 9)):
        U += unit(f'c14_hilbert_curve_{k}', 'c01_layouts.cpp', f'hilbert_curve_h<{k}>()', 'BITS', sites=[1, 2, 3, 4],
                  cfg={'query_timeout_ms': 600000}, weight=4 ** k, timeout=2400, diff=(k == 3))
    return U


# ------------------------------------------------------------------------------------------------ C02 / C10 / C11 / C04
PAIRS_Q = [(1, 1), (2, 3), (3, 1), (3, 3), (1, 4)]
PAIRS_T = [(n, m) for n in (1, 2, 3, 4) for m in (1, 2, 3, 4)]
PERMS = {1: ['0'], 2: ['1,0'], 3: ['2,0,1', '1,2,0'], 4: ['3,1,0,2']}

INFO['C02'] = {
    'bounds': 'per-layer obligations over the probe backend (uninterpreted function of the coordinate, call recorder): '
              'N and M independently in 1..4 (quick: 5 pairs, thorough: 16), coordinate scalars int/unsigned/size_t/float/double '
              'where the layer admits them; every coordinate value (NaN excluded), every configuration value; the vector type itself (covfie::array::array, sizes 1..4: fill / C-array / variadic / copy constructors, element access, size, iteration; a constant backend configured through the fill constructor); '
              'composition for deeper stacks by induction over the stack (stated) plus fixed stacks of depth 3-5 checked directly; pairwise adjacency over the REAL layers: each of clamp, backup, shuffle, covariant_cast, dereference, nearest_neighbour directly above each of strided, Morton (both variants), Hilbert, clamp, backup, shuffle, cast, dereference (each over strided<array>, 3x2 storage, symbolic contents/configuration) and constant; linear above each of those (bit-identical to linear above a plain row-major array of the values the layer reports; every cell, quarter-cell offsets, symbolic contents; 2-D over all ten kinds, 1-D/3-D/4-D over strided, Morton (both), shuffle, clamp, backup on 2x3x2x2 storage); affine above nearest/linear over clamped layouts (symbolic matrix and coordinate, |.|<=8): W<X>.at equals the definition of W applied to the view X itself gives of the same storage',
    'outside': 'N or M above 4; NaN coordinates; stacks deeper than 5 (covered only by the induction argument)',
    'cuts': 'probe backend = uninterpreted function per output component; equality of results is bit-for-bit',
    'assumptions': ['a layer that treats its backend as an uninterpreted function of the coordinate cannot depend on what lies beneath (compositionality, stated)'],
}
INFO['C10'] = {
    'bounds': 'clamp<probe>: N,M in 1..4, coordinate scalars int/unsigned/size_t/float/double (and int8/uint8/int16/uint16/long for (N,M) = (1,1), (2,3)), all coordinates incl. extremes and '
              'infinities (NaN excluded), all boxes lo<=hi; array-backed: clamp<strided<array>> with symbolic extents and box inside '
              'the extents (INT mode), clamp below/above linear with symbolic extents',
    'outside': 'NaN coordinates; boxes with lo>hi (std::clamp precondition)',
    'cuts': 'probe backend (UF)', 'assumptions': [],
}
INFO['C11'] = {
    'bounds': 'backup<probe<N,M>>: N,M in 1..4, coordinate scalars int/size_t/float/double (and int8/uint8/int16/uint16/unsigned/long for (N,M) = (1,1), (2,3)), all coordinates (NaN excluded), all boxes '
              '(also lo>hi), all defaults bit for bit; probe call counter',
    'outside': 'NaN coordinates', 'cuts': 'probe backend (UF)', 'assumptions': [],
}
INFO['C04'] = {
    'bounds': 'nearest_neighbour<probe>: N=1..4, coordinate scalar float (|x| < 2^23) and double (|x| < 2^52), backend index types size_t and (N<=2) uint8/uint16/int16/int/unsigned/long with the domain ending at max(index type)+1/2, every x_k in '
              '(-0.5, E-0.5): delegated lattice point within 1/2 per component (exact comparisons on doubles); IEEE semantics '
              'bit-precise (z3 FP theory), lrint/lrintf modelled as round-to-nearest-even conversion (default rounding mode)',
    'outside': 'non-default rounding modes; coordinates beyond 2^23 / 2^52 where floats have no fractional part',
    'cuts': 'lrintf/lrint model', 'assumptions': ['FE_TONEAREST'],
}


def layer_units(tier, layers):
    th = tier == 'thorough'
    pairs = PAIRS_T if th else PAIRS_Q
    U = []
    H = 'c02_layers.cpp'
    if 'clamp' in layers:
        tins = ['int', 'unsigned', 'size_t', 'float', 'double']
        for i, (n, m) in enumerate(pairs):
            for j, tin in enumerate(tins):
                if not th and (i + j) % 2 == 1 and not (n, m) == (2, 3):
                    continue
                if tin in ('float', 'double') and n == 4 and not th:
                    continue
                tout = 'float' if (i + j) % 2 == 0 else 'double'
                fl = ('rel', 'dbg', 'san') if (n, m) == (2, 3) else ('rel',)
                U += unit(f'c10_clamp_{n}_{m}_{tin}_{tout}', H, f'clamp_h<{n},{m},{tin},{tout}>()', flavours=fl,
                          sites=[1, 2, 3, 4], diff=(n <= 2), weight=(3 ** n if tin in ('float', 'double') else 1),
                          timeout=3600 if n == 4 else 900)
    if 'clamp' in layers:
        # narrow integer coordinate types (promotion to int inside comparisons and differences)
        for tin, tn in (('uint8_t', 'u8'), ('uint16_t', 'u16'), ('int8_t', 'i8'), ('int16_t', 'i16'), ('long', 'long')):
            for n, m in ((1, 1), (2, 3)):
                U += unit(f'c10_clamp_{n}_{m}_{tn}_float', H, f'clamp_h<{n},{m},{tin},float>()', sites=[1, 2, 3, 4], flavours=('rel', 'san') if n == 2 else ('rel',))
    if 'backup' in layers:
        for tin, tn in (('uint8_t', 'u8'), ('uint16_t', 'u16'), ('int8_t', 'i8'), ('int16_t', 'i16'), ('unsigned', 'unsigned'), ('long', 'long')):
            for n, m in ((1, 1), (2, 3)):
                U += unit(f'c11_backup_{n}_{m}_{tn}_float', H, f'backup_h<{n},{m},{tin},float>()', sites=[1, 2, 3, 4], flavours=('rel', 'san') if n == 2 else ('rel',))
    if 'backup' in layers:
        tins = ['int', 'size_t', 'float', 'double']
        for i, (n, m) in enumerate(pairs):
            for j, tin in enumerate(tins):
                if not th and (i + j) % 2 == 1 and not (n, m) == (2, 3):
                    continue
                tout = 'float' if (i + j) % 2 == 1 else 'double'
                fl = ('rel', 'dbg', 'san') if (n, m) == (2, 3) else ('rel',)
                U += unit(f'c11_backup_{n}_{m}_{tin}_{tout}', H, f'backup_h<{n},{m},{tin},{tout}>()', flavours=fl,
                          sites=[1, 2, 3, 4, 5], diff=(n <= 2))
    if 'shuffle' in layers:
        for (n, m) in pairs:
            for pi, perm in enumerate(PERMS[n]):
                tin = ['size_t', 'float', 'int'][(n + m + pi) % 3]
                U += unit(f'c02_shuffle_{n}_{m}_{tin}_{perm.replace(",", "")}', H, f'shuffle_h<{n},{m},{tin},float,{perm}>()',
                          sites=[1, 2], diff=(n == 3), flavours=('rel', 'dbg') if n == 3 else ('rel',))
    if 'cast' in layers:
        for (n, m) in pairs:
            for tin, tout, tgt in (('size_t', 'float', 'double'), ('float', 'double', 'float')):
                if not th and tin == 'float' and (n + m) % 2:
                    continue
                U += unit(f'c02_cast_{n}_{m}_{tin}_{tout}_{tgt}', H, f'cast_h<{n},{m},{tin},{tout},{tgt}>()', sites=[1, 2, 3],
                          diff=(n == 2))
    if 'prims' in layers:
        for n in (1, 2, 3):
            U += unit(f'c02_deref_{n}', H, f'deref_h<{n},{VEC[["f2", "d3", "f1"][n - 1]]}>()', sites=[1, 2], diff=(n == 2))
        for (n, m) in pairs:
            U += unit(f'c02_constant_{n}_{m}', H, f'constant_h<{n},{m},{"float" if n % 2 else "size_t"},{"double" if m % 2 else "float"}>()',
                      sites=[1, 2], diff=(n == 3))
            U += unit(f'c02_viewforms_{n}_{m}', H, f'viewforms_h<{n},{m},{"float" if m % 2 else "size_t"},float>()', sites=[1, 2, 3],
                      diff=(n == 3))
        for n, t in ((1, 'float'), (2, 'double'), (3, 'size_t'), (4, 'float'), (4, 'double'), (3, 'int'), (2, 'unsigned')):
            U += unit(f'c02_vec_{n}_{t}', H, f'vec_h<{n},{t}>()', sites=[1, 2, 3, 4], diff=(n == 4 and t == 'float'), flavours=('rel', 'dbg') if n == 4 else ('rel',))
        for n in (1, 2, 3, 4):
            U += unit(f'c02_identity_{n}', H, f'identity_h<{n},{["float", "size_t", "double", "int"][n - 1]}>()', sites=[1], diff=(n == 2))
    if 'nn' in layers:
        for n in ((1, 2, 3, 4) if th or 'nnfull' in layers else (1, 2)):
            for tc in ('float', 'double'):
                m = (n % 3) + 1
                U += unit(f'c04_nn_{n}_{m}_{tc}', H, f'nn_h<{n},{m},{tc},size_t,float>()', sites=[1, 2, 3, 4],
                          flavours=('rel', 'dbg') if n == 1 else ('rel',), diff=(n <= 2), weight=20 * n,
                          cfg={'query_timeout_ms': 300000})
    return U


def units_C02(tier, seed):
    U = layer_units(tier, ['clamp', 'backup', 'shuffle', 'cast', 'prims', 'nn'])
    # affine mapping (C09's layer units) and linear interpolation with N != M (C03's identity units) are layers of the grammar too
    U += [u for u in units_C09(tier, seed) if u['name'].startswith('c09_layer_')]
    U += [u for u in units_C03(tier, seed) if u['name'].startswith('c03_identity_') and ('_2_3_' in u['name'] or '_3_1_' in u['name'] or '_1_3_' in u['name'])]
    return U + more_C02(tier)


ADJ_W = ['clamp', 'backup', 'shuffle', 'cast', 'deref', 'nn']
ADJ_K = ['strided', 'mortonport', 'hilbert', 'clamp', 'backup', 'shuffle', 'cast', 'deref', 'constant', 'mortonpdep']


def adjacency_units(tier, ws=None):
    """wrapper W directly above every shipped layer kind K (array-backed, 3x2 storage): W<X>.at == definition_W applied to X's own view"""
    U = []
    for w, wn in enumerate(ADJ_W):
        if ws is not None and wn not in ws:
            continue
        for k, kn in enumerate(ADJ_K):
            fl = ('rel', 'dbg') if (tier == 'thorough' or k in (0, 4)) and k != 9 else ('rel',)
            U += unit(f'c02_adj_{wn}_over_{kn}', 'c02_adjacent.cpp', f'adj_h<{w},{k}>()', sites=[1, 2] if w == 1 else [1],
                      extra=['-mbmi2'] if k == 9 else (), flavours=fl, diff=(k == 0), weight=5 if w == 5 else 1)
    if ws is None or 'linear' in ws:
        # linear above X == linear above a plain row-major array of the values X reports (every cell, quarter offsets)
        for k, kn in enumerate(ADJ_K):
            U += unit(f'c02_adj_linear_over_{kn}', 'c02_adjacent.cpp', f'adj_linear_h<{k}>()', sites=[1], extra=['-mbmi2'] if k == 9 else (),
                      weight=40 if k == 4 else 5, cfg={'max_paths': 20000})
    if ws is None or 'linear' in ws:
        # ... and in 1, 3 and 4 dimensions (one code path of linear per dimensionality, a generic one from 4 on)
        for n in (1, 3, 4):
            for k, kn in enumerate(['strided', 'mortonport', 'shuffle', 'clamp', 'backup', 'mortonpdep']):
                if n == 1 and k in (2, 5) and tier != 'thorough':
                    continue
                U += unit(f'c02_adj_linear{n}d_over_{kn}', 'c02_adjacent.cpp', f'adj_linearN_h<{n},{k}>()', sites=[1], extra=['-mbmi2'] if k == 5 else (),
                          weight=20 if n == 1 else 5, cfg={'max_paths': 20000}, flavours=('rel', 'dbg') if (n == 3 and k == 2) else ('rel',))
    if ws is None or 'affine' in ws:
        # affine above Y == the view of Y at A c + t (symbolic matrix, coordinate, contents)
        for y, yn in enumerate(['nn_clamp_strided', 'linear_clamp_strided', 'nn_clamp_morton', 'linear_clamp_hilbert']):
            if tier != 'thorough' and y >= 2:
                continue
            U += unit(f'c02_adj_affine_over_{yn}', 'c02_adjacent.cpp', f'adj_affine_h<{y}>()', sites=[1], weight=100,
                      cfg={'query_timeout_ms': 600000}, timeout=1800)
    return U


def more_C02(tier):
    """fixed stacks of depth 3-5 against the composed oracle; pairwise adjacency over the real layers"""
    U = adjacency_units(tier)
    U += unit('c02_stack_clamp_backup_shuffle_clamp_probe', 'c02_stacks.cpp', 'stack_a()', sites=[1, 2, 3, 4], diff=True, weight=20,
              flavours=('rel', 'san'))
    U += unit('c02_stack_cast_backup_shuffle_strided_array', 'c02_stacks.cpp', 'stack_b()', sites=[1], diff=True, weight=10, flavours=('rel', 'dbg'))
    U += unit('c02_stack_nn_clamp_shuffle_probe', 'c02_stacks.cpp', 'stack_c()', sites=[1, 2], diff=True, weight=60)
    return U


def units_C10(tier, seed):
    return layer_units(tier, ['clamp']) + more_C10(tier) + adjacency_units(tier, ['clamp'])


def more_C10(tier):
    """array-backed: clamp<strided<array>>, clamp below and above linear, extents unbounded (INT/REAL mode)"""
    th = tier == 'thorough'
    U = []
    H = 'c10_array.cpp'
    for n, c, v in ((1, 'size_t', 'f1'), (2, 'size_t', 'f3'), (3, 'size_t', 'd2'), (1, 'int', 'f1'), (2, 'int', 'd2'), (2, 'unsigned', 'f2')) + \
                   (((4, 'size_t', 'f1'), (1, 'unsigned', 'd4')) if th else ()):
        U += unit(f'c10_arrayclamp_{n}_{c}_{v}', H, f'arrayclamp_h<{n},{c},{VEC[v]}>()', 'INT', sites=[1], cfg=SA, diff=(n == 2 and c == 'size_t'),
                  flavours=('rel', 'san') if c == 'size_t' else ('rel',))
    for n, v, tc in ((1, 'f1', 'float'), (2, 'f2', 'float'), (3, 'd1', 'double'), (2, 'd2', 'double'), (3, 'f3', 'float')):
        U += unit(f'c10_lin_below_{n}_{v}_{tc}', H, f'lin_below_h<{n},{VEC[v]},{tc}>()', 'INT', sites=[1], cfg=SA, weight=5 * n)
    # clamp above linear: decided for N=1 (N=2: the nonlinear bounds VC over floor() terms is not decided by z3 within the cap)
    for v, tc in (('f1', 'float'), ('d2', 'double')):
        U += unit(f'c10_lin_above_1_{v}_{tc}', H, f'lin_above_h<1,{VEC[v]},{tc}>()', 'INT', sites=[1], cfg=SA)
    return U


def units_C11(tier, seed):
    return layer_units(tier, ['backup']) + adjacency_units(tier, ['backup'])


def units_C04(tier, seed):
    U = layer_units(tier, ['nn', 'nnfull'])
    # backends indexed by other integer types (narrow unsigned, signed): the domain per axis ends at max(index type) + 1/2
    for n, m, tc, ti in ((1, 1, 'float', 'uint8_t'), (2, 2, 'double', 'uint16_t'), (1, 2, 'double', 'uint8_t'), (2, 1, 'float', 'int'),
                         (1, 1, 'float', 'unsigned'), (1, 1, 'double', 'long'), (1, 1, 'float', 'int16_t'), (2, 1, 'float', 'uint16_t')):
        U += unit(f'c04_nn_idx_{n}_{m}_{tc}_{ti}', 'c02_layers.cpp', f'nn_h<{n},{m},{tc},{ti},float>()', sites=[1, 2, 3, 4], weight=20, cfg={'query_timeout_ms': 300000})
    return U


# ------------------------------------------------------------------------------------------------ C03 / C09
INFO['C03'] = {
    'bounds': 'linear<probe<N,M>>: identity of the exact reading with the N-linear interpolant for ALL integers i>=0 (<2^40), all real '
              'a in [0,1)^N and all real lattice values (UF), N=1..4 quick / 1..5 thorough, M=1..4 independently, coordinate and '
              'stored scalar each float/double; exactly 2^N backend queries at i+bits(n); hull clause solved for N<=2; cell choice '
              'bit-precise for 0<=x<2^23 (float) / 2^52 (double), N<=3; lattice exactness at the 2^N corners of concrete cells '
              '(5,7,2,3) with all finite stored values, N<=3 quick / 4 thorough; the same identity over real array storage '
              '(linear<strided<array>>, grids of 2-3 cells per axis quick / up to 5 thorough, symbolic cell incl. the last one). linear directly above every other shipped layer kind (1-4 dimensions, array-backed, every cell at quarter offsets, symbolic contents): bit-identical to linear above a plain row-major array of the values that layer reports. Rounding clause: op-count bound from the IR '
              '(fmul/fadd counts reported per unit in fp_ops), not solved.',
    'outside': 'overflow/underflow/NaN in the rounding clause; non-default rounding modes; stored values that overflow the coordinate precision; N>5',
    'cuts': 'REAL mode: fptoui/trunc of an input-shaped term i+a rewrite to i (true fact about truncation of non-negative reals); probe backend (UF)',
    'assumptions': ['IEEE-754 standard model: computed value = exact reading with each operation perturbed by (1+d), |d|<=2^-24/2^-53, barring overflow/underflow'],
}
INFO['C09'] = {
    'bounds': 'algebra::affine N=1..4, float and double, REAL mode (all real matrices/vectors): A*x == Ax+t; (A*B)*v == A*(B*v); '
              'product matrix == (A_r B_r | A_r t_B + t_A); left-nested products of up to 4 transforms (N<=3) / 3 transforms (N=4); '
              'translation/scaling/identity exact constants (BITS, all bit patterns), also for mixed-type argument packs (int32,uint32) and (int32,float,uint32) with every entry equal to the own conversion of its argument (unit compiled with -Wno-c++11-narrowing, which makes clang accept what g++ accepts); layer affine<probe<N,M>> queries the probe once '
              'at Ax+t and returns its value, configuration reads back',
    'outside': 'rounding (reported as op count: N multiplies and N adds per component); products of more than 4 transforms',
    'cuts': 'REAL mode (exact reading)', 'assumptions': ['exactness over small integers follows from the identity plus exactness of IEEE arithmetic on small integers (stated)'],
}


def units_C03(tier, seed):
    th = tier == 'thorough'
    U = []
    H = 'c03_linear.cpp'
    pairs = [(n, m) for n in (1, 2, 3, 4) for m in (1, 2, 3, 4)] if th else [(1, 1), (1, 3), (2, 1), (2, 2), (2, 3), (3, 1), (3, 2), (3, 3), (4, 2), (4, 4), (1, 4)]
    ts = [('float', 'float'), ('double', 'double'), ('float', 'double'), ('double', 'float')]
    for i, (n, m) in enumerate(pairs):
        for j, (tc, tst) in enumerate(ts):
            if not th and j != i % 4 and not (n == 2 and m == 3):
                continue
            U += unit(f'c03_identity_{n}_{m}_{tc}_{tst}', H, f'lin_identity_h<{n},{m},{tc},{tst}>()', 'INT',
                      forbid=('fptrunc',) if (tc, tst) == ('double', 'double') else (),
                      sites=[1] + [10 + q for q in range(m)], flavours=('rel', 'dbg') if (n, m) == (2, 3) and j == 0 else ('rel',),
                      diff=(n <= 2 and j == 0), weight=4 ** n, cfg={'query_timeout_ms': 300000})
    if th:
        for m, tc, tst in ((1, 'float', 'float'), (5, 'double', 'double'), (2, 'float', 'double')):
            if m <= 4:
                U += unit(f'c03_identity_5_{m}_{tc}_{tst}', H, f'lin_identity_h<5,{m},{tc},{tst}>()', 'INT',
                          sites=[1] + [10 + q for q in range(m)], weight=2000, cfg={'query_timeout_ms': 900000}, timeout=3000)
    for n in (1, 2):
        for tc, tst in (('float', 'float'), ('double', 'float'), ('float', 'double')):
            U += unit(f'c03_range_{n}_{tc}_{tst}', H, f'lin_range_h<{n},{tc},{tst}>()', 'INT', sites=[1], diff=(tc == 'float' and tst == 'float'))
    for n in ((1, 2, 3) if not th else (1, 2, 3, 4)):
        for tc in ('float', 'double'):
            U += unit(f'c03_cell_{n}_{tc}', H, f'lin_cell_h<{n},{tc}>()', 'BITS', sites=[1, 2, 3, 4], diff=(n == 2), weight=30 * n,
                      cfg={'query_timeout_ms': 300000})
    # weights, bit-precise (every coordinate/stored precision pair; N=1: the per-axis weight itself)
    for tc in ('float', 'double'):
        for tst in ('float', 'double'):
            U += unit(f'c03_weight_1_{tc}_{tst}', H, f'lin_weight_h<1,{tc},{tst}>()', 'BITS', sites=[1], diff=(tc == 'double' and tst == 'float'), weight=40,
                      cfg={'query_timeout_ms': 600000}, timeout=1800)
    lat = [(1, 1, 'float', 'float'), (1, 3, 'double', 'float'), (2, 2, 'float', 'float'), (2, 1, 'float', 'double'), (3, 1, 'float', 'double'), (3, 2, 'double', 'double')]
    if th:
        lat += [(4, 1, 'float', 'float'), (3, 3, 'float', 'float'), (2, 4, 'double', 'float')]
    for n, m, tc, tst in lat:
        U += unit(f'c03_lattice_{n}_{m}_{tc}_{tst}', H, f'lin_lattice_h<{n},{m},{tc},{tst},5,7,2,3>()', 'BITS', sites=[1],
                  diff=(n == 2), weight=100 * n, cfg={'query_timeout_ms': 300000}, timeout=1800)
    # the identity over real array storage (linear<strided<array>>), symbolic cell inside the grid incl. the last cell
    for n, m, ext in ((1, 2, 3), (2, 1, 3), (2, 3, 3), (3, 1, 2), (3, 2, 2)) + (((1, 1, 5), (2, 2, 4), (3, 3, 3), (4, 1, 2)) if th else ()):
        U += unit(f'c03_array_{n}_{m}_{ext}', H, f'lin_array_h<{n},{m},{ext}>()', 'INT', sites=[1], diff=(n == 2 and m == 1),
                  flavours=('rel', 'dbg') if (n, m) == (2, 1) else ('rel',), weight=ext ** n * 3)
    if th:
        U += unit('c03_lattice_origin_2_2', H, 'lin_lattice_h<2,2,float,float,0,0,0,0>()', 'BITS', sites=[1], weight=100)
    # linear over every other layer kind, in 1-4 dimensions (shared with C02): the same interpolant whatever lies beneath
    U += [u for u in adjacency_units(tier, ['linear'])]
    return U


def units_C09(tier, seed):
    th = tier == 'thorough'
    U = []
    H = 'c09_affine.cpp'
    for n in (1, 2, 3, 4):
        for t in ('float', 'double'):
            fb = ('fptrunc',) if t == 'double' else ()
            U += unit(f'c09_apply_{n}_{t}', H, f'apply_h<{n},{t}>()', 'INT', sites=[1], diff=(n == 2), flavours=('rel', 'dbg') if n == 2 else ('rel',), forbid=fb)
            U += unit(f'c09_compose_{n}_{t}', H, f'compose_h<{n},{t}>()', 'INT', sites=[1, 2, 3], diff=(n == 2), forbid=fb)
            U += unit(f'c09_factories_{n}_{t}', H, f'factories_h<{n},{t}>()', 'BITS', sites=[1, 2, 3], diff=(n == 3))
            for ln in (2, 3, 4):
                if ln == 4 and n == 4 and not th:
                    continue
                if t == 'double' and not th and ln != 3:
                    continue
                U += unit(f'c09_chain_{ln}_{n}_{t}', H, f'chain_h<{n},{t},{ln}>()', 'INT', sites=[1], diff=(n == 2 and ln == 3), weight=n * ln, forbid=fb)
        if n == 1:
            for t in ('float', 'double'):
                U += unit(f'c09_factories_mixed_{t}', H, f'factories_mixed_h<{t}>()', 'BITS', sites=[1, 2, 3, 4, 5], extra=['-Wno-c++11-narrowing'], diff=True)
        for m in ((1, 2, 3, 4) if th else ((n % 4) + 1,)):
            t = 'float' if (n + m) % 2 else 'double'
            U += unit(f'c09_layer_{n}_{m}_{t}', H, f'layer_h<{n},{m},{t}>()', 'INT', sites=[1, 2, 3, 4], diff=(n == 2),
                      flavours=('rel', 'dbg') if n == 3 else ('rel',), forbid=('fptrunc',) if t == 'double' else ())
    return U


# ------------------------------------------------------------------------------------------------ C19 / C17 / C05
INFO['C19'] = {
    'bounds': 'nd_map<nd_size<D>>: D=1..3 with extents 0..3 (quick: 0..2 for D=3), D=4 with 0..2, D=5 with 0..1 (thorough); tuples of uint8/uint16/int with fixed extents whose product does not fit the type (16x16 in uint8, thorough: 8x8x4, 4x4x4x4); symbolic '
              'probe tuple over all 64-bit values: counted exactly once iff inside the box; invocation total == product of extents; '
              'closures (std::function copies) released; for ALL extent vectors with every extent >= 1 (unbounded 64-bit values), D=1..5: the '
              'callback is invoked and its first tuple is the origin (the callback leaves the walk by throwing)',
    'outside': 'larger extents (loop forks once per iteration; bound B is an assumption of the harness)', 'cuts': 'none', 'assumptions': [],
}
INFO['C17'] = {
    'bounds': 'make_parameter_pack_for at depth 1..10 over nested affine layers (one shared configuration type), all real '
              'configuration values (REAL mode), read-back layer by layer and behavioural tie through the lookup; two nested '
              'backup layers over the probe (N,M sampled), all configuration bit patterns; depth-5 stack '
              'affine<linear<clamp<strided<array>>>>: every layer read back, field rebuilt from reported configurations + storage, '
              'equal at a symbolic lattice coordinate, 2x2 storage with symbolic contents; accessor walk (get_configuration == stored '
              'configuration, get_backend == next layer) over the 23 stacks of the IO catalogue, all configuration values; rebuild of geometry-consistent states (extents 1..2, hilbert 1..3) of stacks 3/5/6/7/10 and of row-major / Morton / Hilbert fields BUILT BY CONVERSION from a row-major field, through get_configuration()+get_backend() and through a file: equal lookups at EVERY lattice coordinate (state the accessors do not report shows here)',
    'outside': 'stacks other than the listed ones; storage larger than 2x2', 'cuts': 'none', 'assumptions': [],
}
INFO['C05'] = {
    'bounds': 'all ordered pairs of {row-major, Morton pdep, Morton portable, Hilbert}, N=1..3 (Hilbert N=2), every extent vector with '
              'extents 1..3 for N<=2 and 1..2 for N=3 (quick) / 1..5 for N=2 (thorough), plus fixed non-power-of-two shapes 5x5, 5x3, 6x7, 3x3x3, 3x2x3, 5, 2x1x3x2 (thorough: 9x9, 5x5x5, 6x3x5, 17x3, 3x3x3x3, 2x3x1x3), storage float1/double3 with all bit patterns, symbolic '
              'probe coordinate: same configuration, same value, source unchanged, own storage, round trip, independence of writes, no leak; '
              'whole-stack affine<I1<L1<array>>> -> affine<I2<L2<array>>> for I in {nearest, linear}: matrix and layout-level contents; the MOVING conversions field<T>(field<F>&&) for every ordered pair of layouts (incl. the same one) and for whole stacks (incl. the same storage layer under different interpolators): target equals the source as it was, moved-from source destructible, no leak / double free; '
              'host array -> cuda_device_array under a host shim of the CUDA runtime: one device allocation, same configuration and values, source unchanged, host and device storage released',
    'outside': 'extents above the bound; real CUDA devices (the host->device conversion runs under a host shim of cudaMalloc/cudaMemcpy/cudaFree: reduced assurance); device-side copy members of cuda_device_array (ill-formed on the pinned tree, outside the quantifier)',
    'cuts': 'none (nd_map std::function closures, heap allocation and indirect calls are executed as they are)', 'assumptions': [],
}


def units_C19(tier, seed):
    th = tier == 'thorough'
    U = []
    for d in (1, 2, 3, 4, 5):
        U += unit(f'c19_first_{d}', 'c19_ndmap.cpp', f'ndmap_first_h<{d}>()', sites=[1, 2], diff=(d == 2), flavours=('rel', 'dbg') if d == 3 else ('rel',))
    for d, b in ((1, 3), (2, 3), (3, 3 if th else 2)) + (((4, 2), (5, 1)) if th else ((4, 1),)):
        U += unit(f'c19_ndmap_{d}_{b}', 'c19_ndmap.cpp', f'ndmap_h<{d},{b}>()', sites=[1, 2, 3],
                  flavours=('rel', 'dbg', 'san') if d == 2 else ('rel',), diff=(d <= 2), weight=(b + 1) ** d, timeout=1800,
                  cfg={'max_paths': 20000})
    # nd_map is a template over the tuple type: narrow index types whose extent product does not fit them
    typed = [('uint8_t', 2, (16, 16)), ('uint16_t', 2, (3, 5)), ('int', 3, (2, 0, 3))] + ([('uint8_t', 3, (8, 8, 4)), ('uint8_t', 4, (4, 4, 4, 4))] if th else [])
    for t, d, e in typed:
        U += unit(f'c19_ndmap_typed_{t}_{"x".join(map(str, e))}', 'c19_ndmap.cpp', f'ndmap_typed_h<{t},{d},{",".join(map(str, e))}>()', sites=[1, 2, 3],
                  weight=100, timeout=1800, cfg={'max_paths': 20000, 'max_instrs': 200_000_000})
    return U


def units_C17(tier, seed):
    th = tier == 'thorough'
    U = []
    H = 'c17_config.cpp'
    for k in range(0, 10):
        U += unit(f'c17_helper_{k + 1}', H, f'helper_h<{k}>()', 'INT', sites=[1, 2], diff=(k == 3), flavours=('rel', 'dbg') if k in (2, 9) else ('rel',))
    for t in ('float', 'double'):
        U += unit(f'c17_stack5_{t}', H, f'stack5_h<{t}>()', sites=[1, 2, 3, 4, 5, 6, 7], flavours=('rel', 'dbg'), diff=True, weight=10)
    for k in IO_STACKS + IO_LAYERS:
        U += unit(f'c17_accessors_{k}', H, f'accessors_h<{k}>()', sites=[1], diff=(k in (4, 5, 6)), flavours=('rel', 'dbg') if k in (4, 6) else ('rel',))
    for n, m in ((1, 1), (2, 3), (3, 2)) + (((4, 4), (1, 4)) if th else ()):
        U += unit(f'c17_backups_{n}_{m}', H, f'backups_h<{n},{m}>()', sites=[1], diff=(n == 2))
    # the array backend with non-default index types: constructed size == reported size == allocated size
    for t in ('uint8_t', 'uint16_t', 'int', 'long'):
        U += unit(f'c17_array_index_{t}', H, f'array_index_h<{t}>()', sites=[1, 2, 3, 4, 5], flavours=('rel', 'dbg') if t == 'uint8_t' else ('rel',))
    # rebuilt from the reported configurations through every constructor overload of every layer
    for k in IO_STACKS + IO_LAYERS:
        U += unit(f'c17_rebuild_{k}', H, f'rebuild_h<{k}>()', sites=[1, 2, 3], diff=(k in (5, 6)), flavours=('rel', 'dbg') if k in (4, 5, 6, 21) else ('rel',))
        if k == 3:
            for lay in (0, 1, 2):
                U += unit(f'c17_rebuild_conv_{lay}', H, f'rebuild_conv_h<{lay},{3 if lay == 2 else 2}>()', sites=[1, 2, 3], weight=41, timeout=1800, cfg={'sym_cells_cap': 4096})
        if k in (3, 5, 7, 10, 6):
            U += unit(f'c17_rebuild_geo_{k}', H, f'rebuild_geo_h<{k},{3 if k == 7 else 2}>()', sites=[1, 2, 3], weight=41, timeout=1800, cfg={'sym_cells_cap': 4096})
    return U


LAYNAME = {0: 'rowmajor', 1: 'mortonpdep', 2: 'mortonport', 3: 'hilbert'}


def units_C05(tier, seed):
    th = tier == 'thorough'
    U = []
    H = 'c05_convert.cpp'
    for a in (0, 1, 2, 3):
        for b in (0, 1, 2, 3):
            if a == b:
                continue
            for n in (1, 2, 3):
                if 3 in (a, b) and n != 2:
                    continue
                if not th and n != 2 and (a + b + n) % 2:
                    continue
                v = 'f1' if (a + b + n) % 2 else 'd3'
                bnd = 3 if n <= 2 else 2
                if th and n == 2:
                    bnd = 5
                ex = ['-mbmi2'] if 1 in (a, b) else []
                U += unit(f'c05_conv_{LAYNAME[a]}_{LAYNAME[b]}_{n}_{v}', H, f'conv_h<{a},{b},{n},{VEC[v]},{bnd}>()', extra=ex,
                          sites=[1, 2, 3, 4, 5, 6, 7, 8, 9], flavours=('rel', 'san', 'dbg') if (n == 2 and a == 0) else ('rel',),
                          diff=(n == 2 and a == 0), weight=bnd ** n * 10, timeout=1800)
    # fixed larger extents whose maximum is not a power of two (storage sizing of the curves: 5x5, 3x3x3, ...)
    fixed = [(2, (5, 5, 0, 0)), (2, (5, 3, 0, 0)), (2, (6, 7, 0, 0)), (3, (3, 3, 3, 0)), (3, (3, 2, 3, 0)), (1, (5, 0, 0, 0)), (4, (2, 1, 3, 2))]
    if th:
        fixed += [(2, (9, 9, 0, 0)), (3, (5, 5, 5, 0)), (3, (6, 3, 5, 0)), (2, (17, 3, 0, 0)), (4, (3, 3, 3, 3)), (4, (2, 3, 1, 3))]
    for n, e in fixed:
        for a, b in ((0, 1), (0, 2), (2, 0), (1, 2), (0, 3), (3, 0), (2, 3)):
            if 3 in (a, b) and n != 2:
                continue
            if not th and (a, b) in ((1, 2), (2, 3)) and e != (5, 5, 0, 0):
                continue
            v = 'f2' if (a + b + n + e[0]) % 2 else 'd1'
            ex = ['-mbmi2'] if 1 in (a, b) else []
            U += unit(f'c05_convfixed_{LAYNAME[a]}_{LAYNAME[b]}_{"x".join(str(x) for x in e[:n])}_{v}', H,
                      f'conv_fixed_h<{a},{b},{n},{VEC[v]},{e[0]},{e[1]},{e[2]},{e[3]}>()', extra=ex, sites=[1, 2, 3, 4, 5, 6, 7, 8, 9],
                      weight=e[0] * max(1, e[1]) * max(1, e[2]) * max(1, e[3]), timeout=3000, cfg={'sym_cells_cap': 4096})
    # host array -> CUDA device array under the host shim of the CUDA runtime (reduced assurance)
    for n, v, bnd in ((1, 'f2', 3), (2, 'f3', 3), (3, 'd1', 2)) + (((2, 'd4', 4), (4, 'f1', 2)) if th else ()):
        U += unit(f'c05_cuda_h2d_{n}_{v}', 'c05_cuda.cpp', f'h2d_h<{n},{VEC[v]},{bnd}>()', sites=[1, 2, 3, 4, 5],
                  flavours=('rel', 'dbg') if n == 2 else ('rel',), diff=(n == 2), weight=bnd ** n * 5)
    for i1, l1, i2, l2 in ((0, 0, 1, 2), (1, 0, 0, 1), (1, 2, 1, 0), (0, 1, 0, 0), (1, 0, 1, 3), (0, 3, 1, 0),
                           (0, 0, 1, 0), (1, 0, 0, 0), (0, 2, 1, 2), (1, 3, 0, 3), (1, 0, 1, 0)):
        for n in ((2,) if not th else (1, 2, 3)):
            if 3 in (l1, l2) and n != 2:
                continue
            ex = ['-mbmi2'] if 1 in (l1, l2) else []
            U += unit(f'c05_stack_{i1}{LAYNAME[l1]}_{i2}{LAYNAME[l2]}_{n}', H, f'stack_h<{i1},{l1},{i2},{l2},{n},{VEC["f2"]},2>()',
                      extra=ex, sites=[1, 2, 3, 4, 5], diff=(l1 == 0 and n == 2), weight=40)
    # the MOVING conversions field<T>(field<F>&&): every ordered pair of layouts incl. the same layout; whole stacks incl. the same storage layer
    for a in (0, 1, 2, 3):
        for b in (0, 1, 2, 3):
            for n in ((2,) if not th else (1, 2, 3)):
                if 3 in (a, b) and n != 2:
                    continue
                if not th and 1 in (a, b) and (a, b) not in ((1, 0), (0, 1)):
                    continue
                v = ['f1', 'd3', 'f2'][(a + b) % 3]
                ex = ['-mbmi2'] if 1 in (a, b) else []
                U += unit(f'c05_convmove_{LAYNAME[a]}_{LAYNAME[b]}_{n}_{v}', H, f'conv_move_h<{a},{b},{n},{VEC[v]},{3 if n < 3 else 2}>()', extra=ex,
                          sites=[1, 2, 5, 7, 8], diff=(a == 2 and b == 0 and n == 2), weight=30, timeout=1800)
    for i1, l1, i2, l2 in ((1, 0, 0, 0), (0, 0, 1, 0), (1, 2, 0, 2), (0, 3, 1, 3), (1, 0, 0, 2), (0, 2, 1, 0), (1, 0, 1, 0)):
        ex = ['-mbmi2'] if 1 in (l1, l2) else []
        for v in (('f3',) if not th else ('f3', 'd3')):
            U += unit(f'c05_stackmove_{i1}{LAYNAME[l1]}_{i2}{LAYNAME[l2]}_2_{v}', H, f'stack_move_h<{i1},{l1},{i2},{l2},2,{VEC[v]},2>()',
                      extra=ex, sites=[1, 2, 3, 7], diff=(l1 == 0 and l2 == 0 and i1 == 1), weight=40)
    return U


# ------------------------------------------------------------------------------------------------ C06 / C07 / C08
IO_STACKS = [0, 1, 2, 3, 4, 5, 6, 7, 8, 9, 10, 11, 12]
IO_LAYERS = [20, 21, 22, 23, 24, 25, 26, 27, 28, 29]
IO_DESC = ('catalogue: array<float3>, array<double1>, constant (2), identity, strided<size3,array<float3>>, '
           'affine<linear<strided<size2,array<float2>>>>, clamp<morton<size2,array<double2>>>, '
           'backup<shuffle<strided<size2,array<float1>>>>, hilbert<size2,array<float1>>, covariant_cast<double,strided<...>>, '
           'dereference<strided<...>>, nearest_neighbour<strided<...>>; per-layer stacks clamp (int, float and double boxes)/backup/affine/shuffle/cast/linear/nearest '
           'over a token-emitting probe backend')
INFO['C06'] = {
    'bounds': IO_DESC + '; every configuration value and stored scalar a symbolic bit pattern (NaN payloads, signed zeros, subnormals, '
              'infinities); array length 0..2 quick / 0..3 thorough, geometry-consistent states (extents 1..3 with the storage the library allocates), plus long payloads of exactly 86-90 elements (quick) / up to 300 (thorough), plus payloads one element past every integer literal (16..2048) that the array / binary_io sources of the tree under check contain (candidate block sizes of a chunked reader; none on the pinned tree), and for literals up to 2^22 (bytes or elements) concrete zero-filled payloads of exactly that size and one element more: load(dump(f)) bit-identical at every layer and index, reader consumes '
              'exactly the written bytes, dump(load(dump(f))) == dump(f) byte for byte; on the geometry-consistent states the reloaded field also looks up the same bits at every lattice coordinate',
    'outside': 'arrays longer than the bound; stacks outside the catalogue (covered compositionally by the per-layer probe stacks)',
    'cuts': 'stream model (engine/models.py: istream::read / ostream::write on engine-owned streams); error-message formatting cut',
    'assumptions': [],
}
INFO['C07'] = {
    'bounds': 'same state space as C06: dump(f) == reference serialiser written from the pinned byte grammar (harness/vf_state.hpp), '
              'byte for byte, and files produced by the reference serialiser load to the same state; cross-type loads between stacks '
              'differing in interpolator (none/nearest/linear) and float<->double storage: widening exact, narrowing equals the cast and '
              '(thorough) satisfies the independent nearest-neighbour oracle incl. ties-to-even, subnormals, largest finite',
    'outside': 'NaN/inf and out-of-range values under narrowing (excluded by the property); golden files are not committed as binaries: '
               'the reference serialiser is the pinned grammar in executable form',
    'cuts': 'as C06', 'assumptions': [],
}
INFO['C08'] = {
    'bounds': 'for every dump of the C06 state space: (1) every proper prefix (symbolic length t < |D|, every byte offset), '
              '(2) every header/footer/tag/width word replaced by any other 32-bit value, (3) ordered pairs of incompatible stacks, '
              '(4) a stream that fails from the n-th read on for every n below the number of reads, (5) cases 1 and 4 again with stream exceptions enabled by the caller (failbit|badbit; the failing read itself throws ios_base::failure, the cleanup code of the reader runs during that unwinding): an exception is raised; no normal '
              'return, leak of partially built storage, abort, memory VC failure, decision on uninitialised data or hang (a loop past 400 iterations on these <= 300-byte inputs is a HANG finding, replayed natively under a 20 s limit); rel and dbg flavours',
    'outside': 'exception masks other than failbit|badbit (eofbit alone); streambufs that throw; allocation failure',
    'cuts': 'as C06; bytes a short read does not deliver stay uninitialised in the destination (undef-tagged)',
    'assumptions': ['width word of an EMPTY array switched to the other legal width is a valid file (C07), not an altered-word violation'],
}


def units_C06(tier, seed):
    th = tier == 'thorough'
    b = 3 if th else 2
    U = []
    for k in IO_STACKS + IO_LAYERS:
        fl = ('rel', 'dbg') if k in (3, 4, 20, 8) or th else ('rel',)
        U += unit(f'c06_roundtrip_{k}', 'c06_io.cpp', f'roundtrip_h<{k},{b}>()', sites=[1, 2, 3, 4, 5, 6], flavours=fl,
                  diff=(k in (0, 3, 4, 5, 6, 21)), weight=10 if k < 20 else 1)
    # geometry-consistent states (extents 1..3 and the storage the library itself allocates for them)
    for k in (3, 5, 7, 4, 6, 10):
        g = 3 if (k in (5, 7) or th) else 2
        U += unit(f'c06_roundtrip_geo_{k}', 'c06_io.cpp', f'roundtrip_geo_h<{k},{g}>()', sites=[1, 2, 3, 4, 5, 6], weight=60, timeout=1800,
                  cfg={'sym_cells_cap': 4096})
    return U + long_payload_units(tier, 'C06')


def io_block_sizes(big=False):
    """integer literals (16..2048) in the array / binary_io sources of the tree under check: candidate block sizes of a chunked
    reader or writer. Re-derived from the source on every run; the pinned tree has none."""
    import re
    root = os.environ.get('VF_REPO', '/repo')
    out = set()
    for f in ('lib/core/covfie/core/backend/primitive/array.hpp', 'lib/core/covfie/core/utility/binary_io.hpp'):
        try:
            t = open(os.path.join(root, f)).read()
        except OSError:
            continue
        t = re.sub(r'/\*.*?\*/', '', t, flags=re.S)
        t = re.sub(r'//.*', '', t)
        t = re.sub(r'"(?:[^"\\]|\\.)*"', '""', t)
        out |= set(int(m.group(1)) for m in re.finditer(r'(?<![\w.])(\d{2,4})(?:[uU]?[lL]{0,2})\b', t))
        out |= set(1 << int(m.group(1)) for m in re.finditer(r'\b1[uU]?[lL]{0,2}\s*<<\s*(\d{1,2})', t))
    if big:
        return sorted(b for b in out if 2048 < b <= (1 << 22))
    return sorted(b for b in out if 16 <= b <= 2048)


def long_payload_units(tier, which):
    """array payloads longer than any plausible block size (300 scalars): exact length, all scalars symbolic"""
    th = tier == 'thorough'
    U = []
    lens = [(0, 90), (3, 86)] + ([(11, 300), (13, 100), (5, 130), (10, 260)] if th else [])
    for k, ln in lens:
        U += unit(f'c06_roundtrip_long_{k}_{ln}', 'c06_io.cpp', f'roundtrip_len_h<{k},{ln}>()', sites=[1, 2, 3, 4, 5, 6], weight=ln * 3, timeout=1800,
                  cfg={'sym_cells_cap': 8192})
    cross = [(3, 35, 86), (35, 3, 86)] + ([(10, 32, 260), (13, 0, 100)] if th else [])
    # payloads just past every block size the IO sources mention (scalars and whole elements of width 3 and 1)
    for bsz in io_block_sizes():
        for k, ln in ((0, bsz // 3 + 1), (11, bsz + 1)):
            if (k, ln) not in lens and ln > 90:
                U += unit(f'c06_roundtrip_block{bsz}_{k}_{ln}', 'c06_io.cpp', f'roundtrip_len_h<{k},{ln}>()', sites=[1, 2, 3, 4, 5, 6], weight=ln * 3,
                          timeout=3000, cfg={'sym_cells_cap': 16384})
        if bsz // 3 + 1 > 86:
            cross.append((0, 13, bsz // 3 + 1))          # widening: one path
            if bsz <= 1100:
                cross.append((0, 13, 2 * bsz // 3 + 2))  # ... and past the second full block
            if bsz <= 300:
                cross.append((13, 0, bsz // 3 + 1))
    # very large block sizes (bytes or elements, up to 2^22): exact multiples and one past, concrete zero contents, array<double1>
    for lit in io_block_sizes(big=True):
        lens_big = sorted({lit // 8, lit // 8 + 1, lit // 4} | ({lit} if lit <= (1 << 18) else set()))
        for ln in lens_big:
            U += unit(f'c06_roundtrip_big{lit}_11_{ln}', 'c06_io.cpp', f'roundtrip_big_h<11,{ln}>()', sites=[1, 2, 6], weight=ln // 100, timeout=3000,
                      cfg={'max_instrs': 4_000_000_000, 'loop_cap': 100_000_000})
    if which == 'C07':
        for a, bb, ln in cross:
            U += unit(f'c07_cross_long_{a}_{bb}_{ln}', 'c06_io.cpp', f'cross_len_h<{a},{bb},{ln}>()', sites=[1, 3, 4], weight=ln * 3, timeout=3000,
                      cfg={'sym_cells_cap': 16384})
    return U


def units_C07(tier, seed):
    th = tier == 'thorough'
    b = 3 if th else 2
    U = long_payload_units(tier, 'C07')
    for k in IO_STACKS + IO_LAYERS:
        U += unit(f'c06_roundtrip_{k}', 'c06_io.cpp', f'roundtrip_h<{k},{b}>()', sites=[1, 2, 3, 4, 5, 6], diff=(k in (3, 5)),
                  weight=10 if k < 20 else 1)
    pairs = [(10, 30), (30, 10), (10, 31), (10, 32), (33, 10), (33, 32), (32, 33), (4, 34), (3, 35), (31, 10), (32, 10), (35, 3), (34, 4), (0, 13), (13, 0)]
    for a, bb in pairs:
        narrowing = (a, bb) in ((31, 10), (32, 10), (35, 3), (34, 4), (32, 33), (13, 0))
        U += unit(f'c07_cross_{a}_{bb}', 'c06_io.cpp', f'cross_h<{a},{bb},{b if not narrowing else 2},false>()', sites=[1, 3, 4], diff=True, weight=5)
        if narrowing and (th or (a, bb) == (32, 10)):
            U += unit(f'c07_cross_nearest_{a}_{bb}', 'c06_io.cpp', f'cross_h<{a},{bb},1,true>()', sites=[1, 2, 3, 4], weight=300,
                      cfg={'query_timeout_ms': 600000}, timeout=2400)
    return U


def units_C08(tier, seed):
    th = tier == 'thorough'
    b = 3 if th else 2
    U = []
    for k in IO_STACKS + IO_LAYERS:
        if k in (2,) :
            pass
        fl = ('rel', 'dbg') if (k in (3, 4, 5, 20, 1) or th) else ('rel',)
        U += unit(f'c08_trunc_{k}', 'c06_io.cpp', f'trunc_h<{k},{b}>()', sites=[1, 2], flavours=fl, diff=(k in (3, 21)), weight=20,
                  cfg={'max_paths': 20000, 'hang_cap': 400}, timeout=1800)
        U += unit(f'c08_word_{k}', 'c06_io.cpp', f'word_h<{k},{b if th else 1}>()', sites=[1, 2], flavours=fl, diff=(k in (3,)), weight=20,
                  cfg={'max_paths': 20000, 'hang_cap': 400}, timeout=1800)
        if k in (0, 3, 4, 5, 6, 12, 20, 21, 22) or th:
            U += unit(f'c08_failat_{k}', 'c06_io.cpp', f'failat_h<{k},{b if th else 1}>()', sites=[1, 2], flavours=fl, diff=(k == 3), weight=20,
                      cfg={'max_paths': 20000, 'hang_cap': 400}, timeout=1800)
    # the same with stream exceptions enabled by the caller (failbit | badbit): the failing read itself throws ios_base::failure
    for k in IO_STACKS + IO_LAYERS:
        U += unit(f'c08_truncexc_{k}', 'c06_io.cpp', f'trunc_h<{k},{b},true>()', sites=[1, 2], diff=(k == 3), weight=20,
                  cfg={'max_paths': 20000, 'hang_cap': 400}, timeout=1800)
        if k in (0, 3, 5, 21) or th:
            U += unit(f'c08_failatexc_{k}', 'c06_io.cpp', f'failat_h<{k},{b if th else 1},true>()', sites=[1, 2], weight=20,
                      cfg={'max_paths': 20000, 'hang_cap': 400}, timeout=1800)
    for a, bb in ((3, 40), (40, 3), (3, 41), (41, 3), (3, 42), (42, 3), (0, 1), (1, 0), (2, 1), (3, 4), (4, 5), (5, 3), (7, 33), (33, 7), (6, 20), (10, 0), (0, 3)):
        U += unit(f'c08_pair_{a}_{bb}', 'c06_io.cpp', f'pair_h<{a},{bb},1>()', sites=[1], flavours=('rel', 'dbg') if a == 3 else ('rel',),
                  diff=(a == 3 and bb == 40))
    return U


# ------------------------------------------------------------------------------------------------ C12
INFO['C12'] = {
    'bounds': 'field types strided<size2,array<float1>>, morton<size2,array<float1>,portable>, affine<linear<strided<...>>>; '
              'inductive step: pre-state = 2 slots (quick) / 3 slots for the ownership operations (thorough), each empty / live / moved-from, live fields built '
              'through the API with extents in {1,2}^2 (storage <= 4 cells) and symbolic contents; ONE operation with symbolic slot '
              'arguments (aliasing allowed): copy-construct and copy-assign from a live OR a moved-from source (the copy of a moved-from slot has unspecified value, owns what it holds, and every cell it records is initialised: a branch on each cell, UNINIT-DECISION otherwise), move-construct, copy-assign (incl. self), move-assign, write through a '
              'view, destroy, converting copy through the other layout, converting MOVE through the other layout (source left moved-from), dump/load; post: every live slot equals its plain-array model at '
              'every coordinate, live buffers pairwise distinct, live heap objects == live slots, teardown frees everything; engine VCs: '
              'no double free, no use after free, no mismatched delete. Bounded histories from empty slots with symbolic operation '
              'choice: length 2 (quick) / 3 (thorough)',
    'outside': 'storage above 4 cells, more than 3 slots; histories longer than the bound are covered by the inductive step (stated); the VALUE of a moved-from slot and of a copy of one is unspecified (only ownership, no leak, and initialised storage of the copy are demanded)',
    'cuts': 'none',
    'assumptions': ['the pre-state generator reaches every state the API can build within the size bound, so one step covers histories of any length (induction, stated)',
                    'moved-from slots only admit destroy and assign-to'],
}


def units_C12(tier, seed):
    th = tier == 'thorough'
    U = []
    H = 'c12_history.cpp'
    ns = 3 if th else 2
    opn = ['copyc', 'movec', 'copya', 'movea', 'write', 'destroy', 'convert', 'dumpload', 'loadfail', 'convertmove']
    for t in (0, 1, 2):
        for op in range(10):
            if not th and t == 1 and op in (4, 5):
                continue
            fl = ('rel', 'san') if (op in (2, 3) or th) else ('rel',)
            # three slots for the ownership operations; the operations with symbolic coordinates / conversions / IO keep two
            nsl = ns if op in (0, 1, 2, 3, 5) else 2
            U += unit(f'c12_step_{opn[op]}_t{t}', H, f'step_h<{t},{op},{nsl}>()', sites=[1, 2, 4, 90], flavours=fl,
                      diff=(t == 0 and op in (2, 6)), weight=100 if th else 10,
                      cfg={'max_paths': 400000, 'max_traces': 3, 'max_instrs': 400_000_000}, timeout=7200 if th else 3000)
    # conversion between stacks that share the storage type (source must not be stolen from)
    for op in (6, 9):
        U += unit(f'c12_step_{opn[op]}_t3', H, f'step_h<3,{op},2>()', sites=[1, 2, 4, 90], flavours=('rel', 'san') if th else ('rel',), weight=100 if th else 10,
                  cfg={'max_paths': 400000, 'max_traces': 3, 'max_instrs': 400_000_000}, timeout=7200 if th else 3000)
    for t in (0, 2) if not th else (0, 1, 2):
        ln = 3 if th else 2
        U += unit(f'c12_hist_{ln}_t{t}', H, f'hist_h<{t},{ln},2>()', sites=[11, 12, 14, 90], diff=(t == 0), weight=1000,
                  cfg={'max_paths': 400000, 'max_traces': 3, 'max_instrs': 600_000_000}, timeout=9000 if th else 6000)
    return U


# ------------------------------------------------------------------------------------------------ C15
INFO['C15'] = {
    'bounds': 'the kernels of C01..C19 (same harnesses, same input bounds) re-executed as UBSan-trap-instrumented IR (-O1 NDEBUG and '
              '-O0 assertion-enabled): every llvm.ubsantrap (signed overflow, shift, static array bounds, null, missing return, '
              'unreachable, float-cast overflow, bool/enum load, division), every unreachable, __assert_fail/abort/terminate must be '
              'unreachable on in-domain inputs; engine memory VCs (heap/stack bounds, lifetime, double free, mismatched delete, '
              'uninitialised-data decisions) on every access; build equivalence: the -O2 NDEBUG and -O0 assertion-enabled IR of a '
              'harness executed on the same symbolic inputs, all path pairs with jointly satisfiable path conditions must agree on '
              'every observed value and on the sequence of assertion sites',
    'outside': 'this is clang-14 IR at -O0/-O1/-O2, not g++ code generation (bridged by native replay only); pointer-overflow and '
               'alignment checks are disabled in the IR (the engine\'s own bounds VCs cover the accesses); floating-point results '
               'compared per IR operation, not across compilers; "randomly generated programs" are replaced by one symbolic harness '
               'per operation class (construct, lookup, write, copy, assign, convert, dump, load)',
    'cuts': 'as the source properties', 'assumptions': ['in-domain is what each harness assumes (listed in the harness sources)'],
}


def units_C15(tier, seed):
    th = tier == 'thorough'
    pool = []
    for pid in ('C18', 'C01', 'C14', 'C02', 'C04', 'C03', 'C09', 'C19', 'C17', 'C05', 'C06', 'C07', 'C08', 'C12'):
        for u in globals()['units_' + pid]('quick', seed):
            if u['flavour'] != 'rel' or u.get('witness') or u['weight'] > (400 if th else 60):
                continue
            n = u['name']
            if n.startswith('c18_ipow_bin') or n.startswith('c12_hist') or n.startswith('c18_ipow_rec') or n.startswith('c18_ipow_all'):
                continue
            if n.startswith('c18_ipow_exact') and int(n.split('_')[4].split('.')[0]) > 13:
                continue      # promoted 16-bit products under signed-overflow checks: no verdict in 600 s
            pool.append(u)
    seen = set(); uniq = []
    for u in pool:
        if u['name'] not in seen:
            seen.add(u['name']); uniq.append(u)
    U = []
    for i, u in enumerate(uniq):
        base = u['name'][:-4]
        cfg = {k: v for k, v in u['cfg'].items() if k != 'loop_cap'}     # -O0 code has other loop shapes
        if th or i % 3 == 0:
            U.append(dict(u, name=f'c15_{base}.san', flavour='san', diff=False, cfg=cfg))
        # -O0 code of these kernels forks per bit of a symbolic coordinate (Hilbert rotation) or per comparison of a deep
        # stack: beyond the path cap, so they are checked in the -O1 sanitizer flavour only
        no_o0 = any(base.startswith(x) for x in ('c01_hilbert', 'c14_hilbert_curve', 'c02_stack_clamp', 'c01_api_hilbert', 'c05_conv_hilbert', 'c05_convfixed',
                                                'c02_adj_linear', 'c02_adj_nn', 'c02_adj_affine', 'c05_convmove_hilbert', 'c05_convmove_rowmajor_hilbert', 'c05_convmove_mortonport_hilbert'))
        if (th or i % 9 == 1) and not no_o0:
            U.append(dict(u, name=f'c15_{base}.dsan', flavour='dsan', diff=False, weight=u['weight'] * 5, cfg=cfg))
        if (th or i % 6 == 2) and u['weight'] <= 40 and not u['name'].startswith('c12_') and not no_o0:
            U.append(dict(u, name=f'c15_{base}.equiv', flavour='rel', product='dbg', diff=False, weight=u['weight'] * 6, max_pairs=40000, cfg=cfg))
    return U


# ------------------------------------------------------------------------------------------------ C16
INFO['C16'] = {
    'bounds': 'footprint of field_view::at for storage orders {row-major, Morton pdep, Morton portable, Hilbert} x {no interpolator, '
              'nearest, linear} x N<=3 (Hilbert 2) plus 4-D row-major linear (the generic N>=4 branch), array-backed; the wrapper layers affine, nearest, backup, clamp, shuffle, covariant_cast, dereference in one depth-8 array-backed stack (symbolic matrix, box, default, contents), constant and identity backends; grids of 2..3 cells per axis with symbolic contents, symbolic in-domain '
              'coordinate: no store to the view, the field, the buffer or any non-stack object; no mutable global, thread_local, atomic or '
              'static-local guard touched; result identical through a second copy of the view; distinct coordinates map to disjoint cells '
              'for ALL extents (the C01 injectivity units). No bound on the number of threads: no conflicting access exists, so no '
              'interleaving needs exploring',
    'outside': 'user code that reconstructs or destroys the field concurrently; CUDA backends; N>4',
    'cuts': 'none',
    'assumptions': ['data-race freedom follows from the absence of conflicting accesses (happens-before argument independent of the schedule, stated)'],
}


def units_C16(tier, seed):
    th = tier == 'thorough'
    U = []
    vs = ['f1', 'f2', 'f3']
    for lay, ex in ((0, []), (1, ['-mbmi2']), (2, []), (3, [])):
        for interp in (0, 1, 2):
            for n in ((1, 2, 3) if lay != 3 else (2,)):
                if not th and n == 3 and interp == 2 and lay in (1, 2):
                    continue
                if not th and n == 1 and lay in (1, 2) and interp != 0:
                    continue
                v = vs[(lay + interp + n) % 3]
                ext = 3 if (interp == 2 or n == 1) else 2
                if n == 3 and interp == 2:
                    ext = 2
                if interp == 2 and ext < 2:
                    ext = 2
                U += unit(f'c16_footprint_{LAYNAME[lay]}_{["none", "nn", "linear"][interp]}_{n}_{v}', 'c16_footprint.cpp',
                          f'footprint_h<{lay},{interp},{n},{VEC[v]},{ext}>()', extra=ex, sites=[1, 2, 3],
                          flavours=('rel', 'dbg') if (n == 2 and interp != 2) else ('rel',), weight=ext ** n * (4 if interp == 2 else 1),
                          cfg={'query_timeout_ms': 300000}, timeout=1800)
    # the generic N>=4 branch of linear has its own code: one 4-D unit
    U += unit('c16_footprint_rowmajor_linear_4_f1', 'c16_footprint.cpp', f'footprint_h<0,2,4,{VEC["f1"]},2>()', sites=[1, 2, 3], weight=400,
              cfg={'query_timeout_ms': 300000, 'sym_cells_cap': 1024}, timeout=3000)
    if th:
        U += unit('c16_footprint_mortonport_nn_4_f2', 'c16_footprint.cpp', f'footprint_h<2,1,4,{VEC["f2"]},2>()', sites=[1, 2, 3], weight=400,
                  cfg={'query_timeout_ms': 300000, 'sym_cells_cap': 1024}, timeout=3000)
    # wrapper layers (affine, nearest, backup, clamp, shuffle, cast, dereference) in one deep array-backed stack; constant and identity
    U += unit('c16_wrappers_deep', 'c16_wrappers.cpp', 'deep_h()', sites=[1, 2, 3], flavours=('rel', 'dbg'), weight=300,
              cfg={'query_timeout_ms': 300000}, timeout=1800)
    U += unit('c16_wrappers_constant', 'c16_wrappers.cpp', 'constant_h()', sites=[1, 2, 3], flavours=('rel', 'dbg'))
    U += unit('c16_wrappers_identity', 'c16_wrappers.cpp', 'identity_h()', sites=[1, 2, 3], flavours=('rel', 'dbg'))
    for u in U:
        u['native'] = 'tsan'
    # writers to distinct coordinates: disjoint cells for all extents
    U += [u for u in layout_units(tier, 'C01') if ('rowmajor_' in u['name'] or 'morton_' in u['name'] or 'hilbert_' in u['name']) and 'api' not in u['name'] and 'ctor' not in u['name'] and u['flavour'] == 'rel']
    return U


# ------------------------------------------------------------------------------------------------ C20
INFO['C20'] = {
    'bounds': 'sort_index_sequence on sequences of length 0..4 (quick) / 0..5 (thorough) of symbolic 64-bit elements: at every leaf of the '
              'instantiation tree the output is ascending and a rearrangement of the input, and the leaves cover all inputs; '
              'is_permutation on length pairs up to (3,3) quick / (4,4) thorough: value equals "some bijection matches" (all 64-bit values, '
              'not an alphabet); rewrite rules re-extracted from clang\'s AST of static_permutation.hpp on every run; the witness of '
              'every proved obligation and every counterexample is instantiated by g++ (static_assert)',
    'outside': 'longer sequences; header shapes the rule extractor does not recognise make the check inconclusive (exit 2) - before giving up, such a unit runs a concrete g++ instantiation sweep (sort: every sequence of the unit length, and one longer from length 4, over {0,1,7,SIZE_MAX}; is_permutation: every pair over {0,3,SIZE_MAX}) whose only possible contribution is a counterexample, never a pass',
    'cuts': 'own evaluator of the template metaprogram (structural matching of partial specialisations, conditional_t forks, is_same, member aliases, static constexpr data members, constexpr functions, std::min/std::max, folds, variable templates)',
    'assumptions': ['most-specialised-match selection as implemented in engine/tmpl.py (sufficient for this header; differential g++ instantiation of witnesses)'],
}


def units_C20(tier, seed):
    th = tier == 'thorough'
    U = []
    for L in range(0, 6 if th else 5):
        U.append({'name': f'c20_sort_{L}', 'c20': True, 'args': ['sort', str(L)], 'inst': f'sort_index_sequence<index_sequence<x0..x{L - 1}>>',
                  'harness': 'tmpl', 'flavour': 'ast', 'mode': 'TEMPLATE', 'sites': [], 'cfg': {}, 'diff': True, 'weight': 10 ** L, 'timeout': 3000})
    pairs = [(0, 0), (1, 0), (0, 1), (1, 1), (2, 1), (1, 2), (2, 2), (3, 3), (2, 3), (3, 2)] + ([(4, 4), (3, 4), (4, 3), (4, 2), (1, 3)] if th else [])
    for a, b in pairs:
        U.append({'name': f'c20_perm_{a}_{b}', 'c20': True, 'args': ['perm', str(a), str(b)], 'inst': f'is_permutation<seq{a},seq{b}>',
                  'harness': 'tmpl', 'flavour': 'ast', 'mode': 'TEMPLATE', 'sites': [], 'cfg': {}, 'diff': True, 'weight': 10 ** (a + b - 2), 'timeout': 3000})
    return U
