"""Unit lists per property and tier (DESIGN.md section 3, appendix E)."""

INFO = {}


def unit(name, harness, inst, mode='BITS', flavours=('rel',), sites=(), cfg=None, extra=(), diff=False, weight=1,
         defs=(), witness=False):
    out = []
    for fl in flavours:
        out.append({'name': f'{name}.{fl}', 'harness': harness, 'inst': inst, 'mode': mode, 'flavour': fl,
                    'sites': list(sites), 'cfg': dict(cfg or {}), 'extra': list(extra), 'diff': diff, 'weight': weight,
                    'defs': list(defs), 'witness': witness})
    return out


def info(pid):
    return INFO.get(pid, {})


# ------------------------------------------------------------------------------------------------ C18
INFO['C18'] = {
    'bounds': 'round_pow2: every i in [1, 2^(w-1)] at w=8,16,32,64 (loop forks <= w+1 times, cap checked). '
              'ipow: ring recurrences for all (b,e) at 8 and 16 bit; equality with the binary-expansion product '
              'prod_j (b^(2^j))^(bit_j e) for all (b,e) at 8/16/32 bit (quick) and 64 bit (thorough); equality with the naive '
              'product for symbolic b and every exponent 0..64 at all widths (quick: 12 selected exponents); all (b,e) pairs '
              'at 8 bit against the naive loop with e<=40 quick / e<=255 thorough. '
              'Sizing consequence: C01/C05 harnesses (bounds VCs of the curve lookups).',
    'outside': 'signed T; i > 2^(w-1) (loop does not terminate, excluded by the property); induction on e for the '
               'recurrences is a stated argument, not a query',
    'cuts': 'none',
    'assumptions': ['recurrences ipow(b,0)=1, ipow(b,1)=b, ipow(b,2e)=ipow(b*b,e), ipow(b,2e+1)=b*ipow(b*b,e) characterise b^e in Z/2^w (induction on e, stated)'],
}


def units_C18(tier, seed):
    U = []
    T = {8: 'uint8_t', 16: 'uint16_t', 32: 'uint32_t', 64: 'uint64_t'}
    bv = {'solver': 'bvsat', 'flat': False}
    for w, t in T.items():
        U += unit(f'c18_round_pow2_{w}', 'c18_numeric.cpp', f'round_pow2_h<{t}>()', sites=[1, 2, 3],
                  flavours=('rel', 'san'), diff=(w in (8, 64)), cfg={'loop_cap': w + 2})
        if w <= 16:
            # ring recurrences; the odd case needs associativity of a w-step product: decided at 8 and 16 bit only
            U += unit(f'c18_ipow_rec_{w}', 'c18_numeric.cpp', f'ipow_rec_h<{t}>()', sites=[1, 2, 3, 4],
                      flavours=('rel',), diff=(w == 16), cfg={'loop_cap': w + 2})
        if w <= 32 or tier == 'thorough':
            U += unit(f'c18_ipow_bin_{w}', 'c18_numeric.cpp', f'ipow_bin_h<{t}>()', sites=[1], diff=(w == 32),
                      cfg=dict(bv, loop_cap=w + 2, query_timeout_ms=120000), weight=w * w, flavours=('rel',))
        exps = range(0, 65) if tier == 'thorough' else (0, 1, 2, 3, 5, 8, 13, 31, 32, 33, 63, 64)
        for e in exps:
            U += unit(f'c18_ipow_exact_{w}_{e}', 'c18_numeric.cpp', f'ipow_exact_h<{t},{e}>()', sites=[1], diff=(e == 13))
    emax = 255 if tier == 'thorough' else 40
    U += unit('c18_ipow_all8', 'c18_numeric.cpp', f'ipow_all_h<uint8_t,{emax}>()', sites=[1], cfg={'loop_cap': 300}, weight=500, diff=True)
    if tier == 'thorough':
        U += unit('c18_ipow_all16_e24', 'c18_numeric.cpp', 'ipow_all_h<uint16_t,24>()', sites=[1], weight=500)
        U += unit('c18_round_pow2_8_witness', 'c18_numeric.cpp', 'round_pow2_h<uint8_t>()', defs=['VF_WITNESS'], witness=True)
    return U


def units(pid, tier, seed):
    f = globals().get('units_' + pid)
    if f is None:
        return None
    return f(tier, seed)
