"""Run one harness unit (one instantiation, one IR flavour, one number mode) through the symbolic executor."""
import sys, os, time, json, traceback, resource
sys.path.insert(0, os.path.dirname(os.path.abspath(__file__)))
sys.setrecursionlimit(100000)
from irparse import parse_module
from symex import Engine, Config
from alg import Inconclusive


def summarize(e, spec, wall, err=None):
    fails = e.failures if e else []
    asserts = {str(k): v for k, v in (e.asserts.items() if e else [])}
    inconc = list(e.inconclusive) if e else []
    if err:
        inconc.append(err)
    # vacuity: every assert site named by the spec must have been reached on some feasible path
    for site in spec.get('sites', []):
        if str(site) not in asserts or asserts[str(site)]['reached'] == 0:
            inconc.append(f'vacuity: assert site {site} not reached on any feasible path')
    # rounding clause (static): a kernel instantiated in double precision must not narrow intermediates to float
    if e and spec.get('forbid_fp_ops'):
        bad = [o for o in spec['forbid_fp_ops'] if e.fp_ops.get(o)]
        if bad and hasattr(e, 'last_state'):
            import struct
            ins = []
            for i, (kind, name, term) in enumerate(e.last_state.inputs):
                if kind in ('f64', 'unit_f64'):
                    v = struct.unpack('<Q', struct.pack('<d', 0.1 * (i % 7 + 1) + (16777217.0 if i % 5 == 0 else 0.0)))[0]
                elif kind in ('f32', 'unit_f32'):
                    v = struct.unpack('<I', struct.pack('<f', 0.1 * (i % 7 + 1)))[0]
                else:
                    v = 1
                ins.append({'kind': kind, 'name': name, 'value': v, 'bits': True})
            fails = fails + [{'kind': 'PRECISION-LOSS', 'site': None, 'inputs': ins, 'ufs': [], 'where': None,
                              'what': f'double-precision kernel executes {bad} ({[e.fp_ops[o] for o in bad]} times): intermediates are narrowed to float, '
                                      'the op-count rounding bound (k * 2^-53) does not hold'}]
    verdict = 'fail' if fails else ('inconclusive' if inconc else 'pass')
    return {
        'name': spec['name'], 'harness': spec['harness'], 'inst': spec['inst'], 'flavour': spec['flavour'],
        'mode': spec['mode'], 'verdict': verdict, 'failures': fails[:20], 'n_failures': len(fails),
        'asserts': asserts, 'inconclusive': inconc[:10],
        'paths': e.npaths if e else 0, 'instrs': e.ninstr if e else 0, 'queries': dict(e.nq) if e else {},
        'solver_s': round(e.tq, 3) if e else 0, 'wall_s': round(wall, 3),
        'functions': sorted(e.funcs_entered) if e else [], 'externals': sorted(e.externals_used) if e else [],
        'cuts': e.cuts if e else 0, 'fp_ops': dict(e.fp_ops) if e else {},
        'footprints': getattr(e, 'footprints', [])[:4] if e else [],
        'traces': e.traces if e else [], 'path_kinds': dict(e.path_kinds) if e else {},
        'cross_check': dict(e.xc) if e else {},
        'observes_last': [(k, str(v)[:80]) for k, v in (e.last_state.observes[:16] if e and hasattr(e, 'last_state') else [])],
    }


def product(ll_a, ll_b, spec):
    """C15 build equivalence: execute two IR flavours of the same harness on the same symbolic inputs and require
    that every observable agrees wherever both path conditions hold (DESIGN.md 3.C15)"""
    import z3
    from alg import zbool
    t0 = time.time()
    ea = eb = None
    try:
        cfg = dict(spec.get('cfg', {}), keep_paths=True)
        ea = Engine(parse_module(open(ll_a).read()), Config(mode=spec['mode'], **cfg)); ea.run('@vf_main')
        eb = Engine(parse_module(open(ll_b).read()), Config(mode=spec['mode'], **cfg)); eb.run('@vf_main')
        r = summarize(ea, spec, 0)
        rb = summarize(eb, spec, 0)
        r['failures'] += rb['failures']; r['n_failures'] += rb['n_failures']
        r['inconclusive'] += rb['inconclusive']
        r['paths'] += rb['paths']; r['instrs'] += rb['instrs']
        for k, v in rb['queries'].items(): r['queries'][k] = r['queries'].get(k, 0) + v
        r['functions'] = sorted(set(r['functions']) | set(rb['functions']))
        A = ea.A
        npairs = 0; ndiv = 0
        pa_ok = [p for p in ea.paths if p['how'] == 'returned' and not p['tainted']]
        pb_ok = [p for p in eb.paths if p['how'] == 'returned' and not p['tainted']]
        if len(pa_ok) * len(pb_ok) > spec.get('max_pairs', 4000):
            r['inconclusive'].append(f'product: {len(pa_ok)} x {len(pb_ok)} path pairs exceed the cap')
        else:
            for pa in pa_ok:
                for pb in pb_ok:
                    st = pa['state']
                    both = pa['pc'] + pb['pc']
                    diffs = []
                    if len(pa['observes']) != len(pb['observes']) or [k for k, _ in pa['observes']] != [k for k, _ in pb['observes']]:
                        diffs = [z3.BoolVal(True)]
                    else:
                        for (k, x), (_, y) in zip(pa['observes'], pb['observes']):
                            if isinstance(x, int) and isinstance(y, int):
                                if x != y: diffs.append(z3.BoolVal(True))
                                continue
                            bits = 64
                            tx = A.term(st, x, bits) if not z3.is_expr(x) or True else x
                            ty = A.term(st, y, bits)
                            if z3.is_expr(tx) and z3.is_expr(ty) and tx.sort() != ty.sort():
                                diffs.append(z3.BoolVal(True)); continue
                            if z3.is_expr(tx) and z3.is_expr(ty) and z3.eq(tx, ty):
                                continue        # syntactically the same term
                            diffs.append(tx != ty)
                        sa = [(s_, c) for s_, c in pa['asserted']]; sb = [(s_, c) for s_, c in pb['asserted']]
                        if [s_ for s_, _ in sa] != [s_ for s_, _ in sb]:
                            diffs.append(z3.BoolVal(True))
                    if not diffs:
                        continue
                    npairs += 1
                    save = st.pc
                    st.pc = both
                    rs, m = ea.check(st, z3.Or(*diffs), want_model=True)
                    st.pc = save
                    if rs == 'sat':
                        ndiv += 1
                        if ndiv <= 3:
                            r['failures'].append({'kind': 'BUILD-DIVERGENCE', 'what': 'NDEBUG -O2 and assertion-enabled -O0 builds observe different results',
                                                  'site': None, 'inputs': ea.model_inputs(st, m), 'ufs': ea.model_ufs(st, m), 'events': [], 'where': None})
                            r['n_failures'] += 1
                    elif rs == 'unknown':
                        r['inconclusive'].append('product: solver unknown on a path pair')
        r['product'] = {'pairs_checked': npairs, 'divergent': ndiv, 'paths_a': len(pa_ok), 'paths_b': len(pb_ok)}
        r['verdict'] = 'fail' if r['failures'] else ('inconclusive' if r['inconclusive'] else 'pass')
        r['wall_s'] = round(time.time() - t0, 3)
        r['solver_s'] = round(ea.tq + eb.tq, 3)
        return r
    except Inconclusive as ex:
        return summarize(ea, spec, time.time() - t0, str(ex))
    except Exception as ex:
        tb = traceback.format_exc().splitlines()
        return summarize(ea, spec, time.time() - t0, f'encoder error: {type(ex).__name__}: {ex} @ {tb[-3].strip() if len(tb) > 2 else ""}')


def run_ir(ll, spec):
    t0 = time.time()
    e = None
    if spec.get('product_ll'):
        return product(ll, spec['product_ll'], spec)
    try:
        mod = parse_module(open(ll).read())
        cfg = Config(mode=spec['mode'], **spec.get('cfg', {}))
        e = Engine(mod, cfg)
        e.run('@vf_main')
        return summarize(e, spec, time.time() - t0)
    except Inconclusive as ex:
        return summarize(e, spec, time.time() - t0, str(ex))
    except Exception as ex:
        tb = traceback.format_exc().splitlines()
        return summarize(e, spec, time.time() - t0, f'encoder error: {type(ex).__name__}: {ex} @ {tb[-3].strip() if len(tb) > 2 else ""}')


if __name__ == '__main__' and len(sys.argv) > 1 and sys.argv[1] == '--unit':
    # worker mode: runh.py --unit <spec.json> <ir.ll> <out.json>
    spec = json.load(open(sys.argv[2]))
    r = run_ir(sys.argv[3], spec)
    json.dump(r, open(sys.argv[4], 'w'), default=str)
    sys.exit(0)

if __name__ == '__main__':
    import argparse
    from frontend import Frontend
    ap = argparse.ArgumentParser()
    ap.add_argument('harness'); ap.add_argument('inst'); ap.add_argument('flavour', nargs='?', default='rel')
    ap.add_argument('mode', nargs='?', default='BITS')
    ap.add_argument('--extra', default=''); ap.add_argument('--cfg', default='{}'); ap.add_argument('--keep', action='store_true')
    ap.add_argument('--pinned', default=None)
    ap.add_argument('--full', action='store_true')
    a = ap.parse_args()
    fe = Frontend(keep=a.keep)
    ll, diag = fe.ir(a.harness, a.inst, a.flavour, a.extra.split())
    if ll is None:
        print(diag); sys.exit(2)
    cfg = json.loads(a.cfg)
    if a.pinned: cfg['pinned'] = json.loads(a.pinned)
    r = run_ir(ll, {'name': 'adhoc', 'harness': a.harness, 'inst': a.inst, 'flavour': a.flavour, 'mode': a.mode, 'cfg': cfg})
    fn = r.pop('functions')
    if a.full:
        print(json.dumps(r, indent=1, default=str)[:20000])
    else:
        print(r['verdict'], 'paths', r['paths'], r['path_kinds'], 'instrs', r['instrs'], 'queries', r['queries'], 'solver_s', r['solver_s'], 'wall_s', r['wall_s'])
        for w in r['inconclusive']: print('  INCONCLUSIVE:', w)
        seen = set()
        for f in r['failures']:
            k = (f['kind'], f['site'], f['what'])
            if k in seen: continue
            seen.add(k)
            print('  FAIL:', f['kind'], 'site', f['site'], f['what'][:150], 'inputs', [i['value'] for i in f['inputs']][:14], 'where', (f.get('where') or [''])[-1][:80])
        print('  asserts:', {k: (v['reached'], v['proved'], v['failed']) for k, v in r['asserts'].items()})
    print('functions:', len(fn))
    if a.keep: print(ll)
