"""Path-forking symbolic executor for the LLVM-14 IR subset clang emits for covfie (DESIGN.md 2.3)."""
import sys, os, time, re, json
from fractions import Fraction
import z3
from irparse import *
from layout import Layout
from alg import *


class Hang(Exception):
    """a loop ran past the unit's hang bound (units whose claim includes termination)"""


class PathEnd(Exception):
    """current path is finished (infeasible, violation recorded, assumption false)"""


class Obj:
    __slots__ = ('size', 'cells', 'live', 'kind', 'owner', 'fill', 'scoped', 'uf')

    def __init__(s, size, kind, owner):
        s.size = size
        s.cells = {}
        s.live = True
        s.kind = kind
        s.owner = owner
        s.fill = None       # byte value every never-written byte has (memset of the whole object), else undef
        s.scoped = False    # lifetime.end seen
        s.uf = None

    def clone(s, owner):
        n = Obj(s.size, s.kind, owner)
        n.cells = dict(s.cells)
        n.live = s.live
        n.fill = s.fill
        n.scoped = s.scoped
        n.uf = s.uf
        return n


class Frame:
    __slots__ = ('f', 'loc', 'bb', 'prev', 'ip', 'calling', 'pending', 'allocas', 'visits')

    def __init__(s, f, args):
        s.f = f
        s.loc = {p: a for (p, _), a in zip(f.params, args)}
        s.bb = f.order[0]
        s.prev = None
        s.ip = 0
        s.calling = None     # call/invoke instruction in progress (callee frame above)
        s.pending = None     # invoke whose callee raised: transfer to its unwind label
        s.allocas = []
        s.visits = {}

    def clone(s):
        n = Frame.__new__(Frame)
        n.f = s.f; n.loc = dict(s.loc); n.bb = s.bb; n.prev = s.prev; n.ip = s.ip
        n.calling = s.calling; n.pending = s.pending; n.allocas = list(s.allocas); n.visits = dict(s.visits)
        return n


class State:
    _ids = 0

    def __init__(s):
        State._ids += 1
        s.id = State._ids
        s.pc = []
        s.mem = {}
        s.nobj = 0
        s.dead = set()
        s.streams = {}
        s.exc = None
        s.events = []
        s.inputs = []          # (kind, name, value-term) in call order
        s.ufcalls = []         # (ufname, [arg terms], result term)
        s.probe = []           # probe backend calls: list of arg lists
        s.observes = []
        s.norm = {}
        s.shape = {}
        s.keep = []
        s.foot = None
        s.counters = {}
        s.heap_bytes = 0
        s.asserted = []
        s.tainted = False     # a violation was recorded on this path: not used as a differential trace

    def clone(s):
        n = State()
        # copy-on-write: after a fork neither side owns the objects that existed before it
        State._ids += 1
        s.id = State._ids
        n.pc = list(s.pc)
        n.mem = dict(s.mem)
        n.nobj = s.nobj
        n.dead = set(s.dead)
        n.streams = {k: v.clone() for k, v in s.streams.items()}
        n.exc = s.exc
        n.events = list(s.events)
        n.inputs = list(s.inputs)
        n.ufcalls = list(s.ufcalls)
        n.probe = list(s.probe)
        n.observes = list(s.observes)
        n.norm = dict(s.norm)
        n.shape = dict(s.shape)
        n.keep = list(s.keep)
        n.foot = None if s.foot is None else {k: (set(v) if isinstance(v, set) else v) for k, v in s.foot.items()}
        n.counters = dict(s.counters)
        n.heap_bytes = s.heap_bytes
        n.asserted = list(s.asserted)
        n.tainted = s.tainted
        return n


class Config:
    def __init__(s, **kw):
        s.mode = 'BITS'
        s.query_timeout_ms = 60000
        s.max_paths = 4000
        s.loop_cap = 100000       # visits of one block within one frame (tightened per unit where it is a termination claim)
        s.max_instrs = 30_000_000
        s.concretize_limit = 64
        s.pinned = None           # list of concrete input values: differential run with pinned inputs
        s.assume_site = {}        # site -> extra assumption id (known findings)
        s.depth_cap = 400
        s.sym_cells_cap = 256
        s.max_traces = 2
        s.solver = 'default'
        s.flat = True
        s.keep_paths = False
        s.hang_cap = 0             # when set: a block visited more often within one frame is a HANG finding (C08)
        s.cross_check = 0          # number of queries per unit also given to cvc5 (thorough tier)
        s.cross_check_ms = 10000
        for k, v in kw.items():
            setattr(s, k, v)


class Engine:
    def __init__(s, mod, cfg):
        s.mod = mod
        s.cfg = cfg
        s.L = Layout(mod)
        s.A = Bits(s) if cfg.mode == 'BITS' else Ints(s)
        FLAT[0] = bool(cfg.flat)
        if cfg.solver == 'bvsat':
            # pure bit-vector kernels with deep multiplication chains: z3's default preprocessing flattens
            # bvmul n-arily (b^(2^k) -> 2^k factors) and never returns; this pipeline keeps the DAG
            s.solver = z3.Then(z3.With('simplify', flat=False, hoist_mul=False, som=False), 'bit-blast', 'sat').solver()
        elif cfg.solver == 'fpsat':
            # bit-vector + IEEE floating point (+ UFs over bit-vectors): eager translation to SAT
            s.solver = z3.Then('simplify', 'fpa2bv', 'simplify', 'ackermannize_bv', 'simplify', 'bit-blast', 'sat').solver()
        elif cfg.solver == 'qffp':
            s.solver = z3.Tactic('qffp').solver()
        elif cfg.solver == 'qfbv':
            s.solver = z3.Then('simplify', 'fpa2bv', 'qfbv').solver()
        elif cfg.solver == 'qfaufbv':
            s.solver = z3.Then('simplify', 'fpa2bv', 'qfaufbv').solver()
        else:
            s.solver = z3.Solver()
        s.fallback = None
        s.nfallback = 0
        if cfg.solver == 'default' and cfg.mode == 'BITS':
            # BITS mode default: eager SAT pipeline first (IEEE FP queries: 0.5 s instead of 60 s), SMT core as fallback
            s.fallback = s.solver
            s.solver = z3.Then('simplify', 'fpa2bv', 'simplify', 'ackermannize_bv', 'simplify', 'bit-blast', 'sat').solver()
            s.fallback.set('timeout', cfg.query_timeout_ms)
        s.solver.set('timeout', cfg.query_timeout_ms)
        s.nq = {'sat': 0, 'unsat': 0, 'unknown': 0}
        s.tq = 0.0
        s.ninstr = 0
        s.nfresh = 0
        s.npaths = 0
        s.failures = []      # dicts
        s.asserts = {}       # site -> {'reached':n,'proved':n,'failed':n,'unknown':n,'witness':...}
        s.inconclusive = []
        s.funcs_entered = set()
        s.externals_used = set()
        s.doomed = {}
        s.ufs = {}
        s.completed = []     # per-path summaries (small)
        s.fp_ops = {}
        s.cuts = 0
        s.traces = []
        s.path_kinds = {}
        s.paths = []
        s.xc = {'done': 0, 'agree': 0, 'disagree': 0, 'unknown': 0, 'error': 0, 'skipped': 0, 'time': 0.0}
        from models import Models
        s.models = Models(s)

    # ------------------------------------------------------------------ solver
    def cross_check(s, st, extra, rs):
        """thorough tier: hand the same verification condition to cvc5 (second solver). A contradiction makes the run
        inconclusive; unknown/timeout/parse error is recorded as 'not cross-checked' and changes nothing."""
        import subprocess, tempfile, os
        x = s.xc
        if x['done'] >= s.cfg.cross_check:
            return
        x['done'] += 1
        try:
            s2 = z3.Solver()
            for c in st.pc: s2.add(c)
            if extra is not None: s2.add(extra)
            txt = '(set-logic ALL)\n' + s2.to_smt2().replace('(set-info :status unknown)', '')
            if len(txt) > 4_000_000:
                x['skipped'] += 1; return
            fd, path = tempfile.mkstemp(suffix='.smt2'); os.write(fd, txt.encode()); os.close(fd)
            try:
                r = subprocess.run(['cvc5', f'--tlimit={s.cfg.cross_check_ms}', path], stdout=subprocess.PIPE, stderr=subprocess.PIPE, text=True,
                                   timeout=s.cfg.cross_check_ms / 1000 + 20)
                out = r.stdout.strip().splitlines()
                ans = out[0].strip() if out else ''
                if 'timeout' in r.stdout or 'timeout' in r.stderr:
                    x['unknown'] += 1; return
                if '(error' in r.stdout or '(error' in r.stderr or r.returncode not in (0,):
                    if ans not in ('sat', 'unsat'):
                        x['error'] += 1; return
                if ans in ('sat', 'unsat'):
                    if ans == rs: x['agree'] += 1
                    else:
                        x['disagree'] += 1
                        s.note_inconclusive(f'second solver disagrees: z3 {rs}, cvc5 {ans}')
                else:
                    x['unknown'] += 1
            finally:
                os.unlink(path)
        except Exception as ex:
            x['error'] += 1

    def check(s, st, extra=None, want_model=False, important=False):
        t = time.time()
        rs, m = s._check_with(s.solver, st, extra, want_model)
        if s.cfg.cross_check and rs in ('sat', 'unsat') and (important or s.xc['done'] < s.cfg.cross_check // 4):
            tq = time.time()
            s.cross_check(st, extra, rs)
            s.xc['time'] += time.time() - tq
            t += time.time() - tq
        if rs == 'unknown' and s.fallback is not None:
            # the eager SAT pipeline gives up on some shapes (too many UF applications, ...): ask the SMT core
            rs, m = s._check_with(s.fallback, st, extra, want_model)
            s.nfallback += 1
        s.tq += time.time() - t
        s.nq[rs] += 1
        if want_model:
            return rs, m
        return rs

    def _check_with(s, solver, st, extra, want_model):
        solver.push()
        try:
            for c in st.pc:
                solver.add(c)
            if extra is not None:
                solver.add(extra)
            try:
                r = solver.check()
            except z3.Z3Exception:
                return 'unknown', None
            rs = 'sat' if r == z3.sat else 'unsat' if r == z3.unsat else 'unknown'
            m = None
            if r == z3.sat and want_model:
                try:
                    m = solver.model()
                except z3.Z3Exception:
                    return 'unknown', None
            return rs, m
        finally:
            solver.pop()

    def fresh_name(s, base):
        s.nfresh += 1
        return f'{base}!{s.nfresh}'

    # ------------------------------------------------------------------ results
    def fail(s, st, kind, what, site=None, extra=None, model=None, stack=None):
        """record a violation candidate on this path with a model of the path condition"""
        if model is None:
            r, model = s.check(st, extra, want_model=True)
            if r == 'unsat':
                return False
            if r == 'unknown':
                s.inconclusive.append(f'solver unknown while building a model for {kind} {what}')
                return False
        f = {'kind': kind, 'what': what, 'site': site, 'inputs': s.model_inputs(st, model),
             'ufs': s.model_ufs(st, model), 'events': [str(e) for e in st.events[-8:]],
             'where': s.where(stack) if stack else None}
        s.failures.append(f)
        st.tainted = True
        return True

    def where(s, stack):
        return [fr.f.name for fr in stack[-6:]]

    def model_inputs(s, st, m):
        out = []
        for kind, name, term in st.inputs:
            out.append({'kind': kind, 'name': name, 'value': s.A.mval(m, term)})
        return out

    def model_ufs(s, st, m):
        out = []
        for name, args, res in st.ufcalls:
            out.append({'uf': name, 'args': [s.A.mval(m, a) for a in args], 'value': s.A.mval(m, res)})
        return out

    def note_inconclusive(s, why):
        if why not in s.inconclusive:
            s.inconclusive.append(why)

    # ------------------------------------------------------------------ doomed-block analysis (error-message cut)
    def doomed_blocks(s, f):
        d = s.doomed.get(f.name)
        if d is not None:
            return d
        succ = {}; term = {}
        for bn, b in f.blocks.items():
            t = b.instrs[-1]; ss = []
            throws = any(i.op in ('call', 'invoke') and i.ops[0].k == 'global' and i.ops[0].v == '@__cxa_throw' for i in b.instrs)
            if t.op == 'br': ss = [t.ops[0]] if len(t.ops) == 1 else [t.ops[1], t.ops[2]]
            elif t.op == 'switch': ss = [t.ops[1]] + [l for _, l in t.ops[2]]
            elif t.op == 'invoke': ss = [t.extra['normal'], t.extra['unwind']]
            succ[bn] = ss
            term[bn] = ('throw' if throws else 'resume' if t.op == 'resume' else 'ret' if t.op == 'ret'
                        else 'unreach' if t.op == 'unreachable' else 'flow')
        D = {bn for bn in f.blocks if term[bn] == 'throw'}
        R = {bn for bn in f.blocks if term[bn] == 'resume'}
        # UBSan trap blocks (ubsantrap; unreachable) inside an error-formatting region do not keep it alive
        T = {bn for bn, b in f.blocks.items() if term[bn] == 'unreach' and len(b.instrs) <= 2 and any(
            i.op == 'call' and i.ops[0].k == 'global' and i.ops[0].v == '@llvm.ubsantrap' for i in b.instrs)}
        changed = True
        while changed:
            changed = False
            for bn in f.blocks:
                if bn in D or bn in R or term[bn] != 'flow' or not succ[bn]:
                    continue
                ss = [x for x in succ[bn] if x not in T]
                if not ss:
                    continue
                if all(x in D or x in R for x in ss) and any(x in D for x in ss):
                    D.add(bn); changed = True
                elif all(x in R for x in ss):
                    R.add(bn); changed = True
        info = {}
        for bn in D:
            seen = set(); stk = [bn]; tin = None; needs_cut = False
            while stk:
                x = stk.pop()
                if x in seen: continue
                seen.add(x)
                for i in f.blocks[x].instrs:
                    if i.op in ('call', 'invoke') and i.ops[0].k == 'global':
                        nm = i.ops[0].v
                        if nm == '@__cxa_throw':
                            a = i.ops[2]
                            tin = a.ops[0].v if a.k == 'cexpr' else a.v
                        elif nm not in s.mod.funcs and not s.models.known(nm):
                            needs_cut = True      # string/stream formatting of the message: outside every claim
                        elif nm in s.mod.funcs and ('basic_string' in nm or 'basic_stringstream' in nm or 'basic_ostream' in nm or 'ios_base' in nm):
                            needs_cut = True
                stk += succ[x]
            # a region that only throws (and may have side effects of its own) is executed as it is
            if needs_cut:
                info[bn] = tin
        s.doomed[f.name] = info
        return info

    # ------------------------------------------------------------------ operand evaluation
    def val(s, st, fr, o):
        k = o.k
        if k == 'local':
            try:
                return fr.loc[o.v]
            except KeyError:
                raise Inconclusive(f'use of undefined local {o.v} in {fr.f.name}')
        t = s.L.res(o.ty) if o.ty is not None else None
        if k == 'int':
            if t.k == 'int': return o.v & MASK(t.bits)
            if t.k in ('float', 'double'): return s.A.fconst(float(o.v), t.k)
            raise Inconclusive(f'int constant of type {t}')
        if k in ('true', 'false'): return o.v
        if k == 'float':
            if isinstance(o.v, tuple): raise Inconclusive('x86_fp80 constant')
            return s.A.fconst(o.v, t.k)
        if k == 'null': return Ptr(None, 0)
        if k == 'global': return Ptr(('g', o.v), 0)
        if k in ('undef', 'poison'): return s.undef_of(st, t)
        if k == 'zero': return s.zero_of(t)
        if k == 'agg': return Agg([s.val(st, fr, x) for x in o.ops])
        if k == 'str':
            raw = s.cstring(o.v)
            return Agg(list(raw))
        if k == 'cexpr':
            if o.v in ('bitcast', 'addrspacecast', 'ptrtoint', 'inttoptr'):
                return s.val(st, fr, o.ops[0])
            if o.v == 'getelementptr':
                bt = o.ops[0]; base = s.val(st, fr, o.ops[1])
                idx = [s.val(st, fr, x) for x in o.ops[2:]]
                return s.gep(st, base, bt, idx, [64] * len(idx))
            raise Inconclusive(f'constant expression {o.v}')
        raise Inconclusive(f'operand {o}')

    def cstring(s, lit):
        body = lit[2:-1] if lit.startswith('c"') else lit[1:-1]
        out = []; i = 0
        while i < len(body):
            if body[i] == '\\':
                out.append(int(body[i + 1:i + 3], 16)); i += 3
            else:
                out.append(ord(body[i])); i += 1
        return out

    def undef_of(s, st, t):
        t = s.L.res(t)
        if t.k == 'int':
            if t.bits == 1: return z3.Bool(s.fresh_name('undef'))
            return s.A.undef(st, s.fresh_name('undef'), max(1, t.bits // 8))
        if t.k in ('float', 'double'): return s.A.fundef(st, s.fresh_name('undef'), t.k)
        if t.k == 'ptr': return Ptr(None, 0)
        if t.k == 'struct': return Agg([s.undef_of(st, f) for f in t.fields])
        if t.k in ('array', 'vector'): return Agg([s.undef_of(st, t.elem) for _ in range(t.n)])
        raise Inconclusive(f'undef of {t}')

    def zero_of(s, t):
        t = s.L.res(t)
        if t.k == 'int': return 0
        if t.k in ('float', 'double'): return s.A.fconst(0.0, t.k)
        if t.k == 'ptr': return Ptr(None, 0)
        if t.k == 'struct': return Agg([s.zero_of(f) for f in t.fields])
        if t.k in ('array', 'vector'): return Agg([s.zero_of(t.elem) for _ in range(t.n)])
        raise Inconclusive(f'zero of {t}')

    # ------------------------------------------------------------------ memory
    def alloc(s, st, size, kind):
        st.nobj += 1
        oid = (kind, st.nobj)
        st.mem[oid] = Obj(size, kind, st.id)
        return oid

    def getobj(s, st, p, what, write=False, stack=None, own=False):
        # own: a private (copy-on-write) clone is wanted because a READ may split cells; unlike write it may touch constants
        if p.obj is None:
            s.fail(st, 'NULL-DEREF', f'{what} through null/integer pointer {p.off}', stack=stack)
            raise PathEnd()
        ob = st.mem.get(p.obj)
        if ob is None:
            if p.obj in st.dead:
                s.fail(st, 'USE-AFTER-FREE', f'{what} of dead object {p.obj}', stack=stack)
                raise PathEnd()
            if p.obj[0] == 'g':
                ob = s.materialize_global(st, p.obj)
            elif p.obj[0] == 'fn':
                raise Inconclusive('data access to a function')
            else:
                raise Inconclusive(f'unknown object {p.obj}')
        if not ob.live:
            s.fail(st, 'USE-AFTER-FREE', f'{what} of freed object {p.obj}', stack=stack)
            raise PathEnd()
        if ob.scoped:
            s.fail(st, 'USE-AFTER-SCOPE', f'{what} of object {p.obj} after lifetime.end', stack=stack)
            raise PathEnd()
        if (write or own) and ob.owner != st.id:
            ob = ob.clone(st.id)
            st.mem[p.obj] = ob
        if write and ob.kind == 'constant':
            s.fail(st, 'WRITE-TO-CONSTANT', f'{what} {p.obj}', stack=stack)
            raise PathEnd()
        return ob

    def materialize_global(s, st, oid):
        name = oid[1]
        g = s.mod.globals.get(name)
        if g is None:
            if name in s.mod.funcs or name in s.mod.decls:
                raise Inconclusive(f'data access to function {name}')
            raise Inconclusive(f'unknown global {name}')
        gsz, _ = s.L.size_align(g['ty'])
        ob = Obj(gsz, 'constant' if g['const'] else 'global', st.id)
        st.mem[oid] = ob
        if g['init'] is not None:
            kind = ob.kind
            ob.kind = 'global'
            s.store(st, Ptr(oid, 0), g['ty'], s.val(st, None, g['init']))
            ob.kind = kind
        elif g['external']:
            raise Inconclusive(f'external global {name} accessed')
        if st.foot is not None and st.foot.get('on') and (not g['const'] or 'thread_local' in g['kw']):
            st.foot['mutable_globals'].add(name)
        return ob

    def bounds(s, st, ob, p, sz, what, stack=None):
        """returns concrete offset, or None when the offset is symbolic (after the VC has been discharged)"""
        A = s.A
        off = A.off_conc(p.off)
        if off is not None and isinstance(ob.size, int):
            if off < 0 or off + sz > ob.size:
                s.fail(st, 'OUT-OF-BOUNDS', f'{what} off={off} size={sz} object={p.obj} objsize={ob.size}', stack=stack)
                raise PathEnd()
            return off
        size_t = ob.size if isinstance(ob.size, int) else A.size_term(st, ob.size) if isinstance(ob.size, IntV) else ob.size
        inb = A.inb(p.off if off is None else off, sz, size_t)
        r = s.check(st, z3.Not(inb))
        if r == 'sat':
            s.fail(st, 'OUT-OF-BOUNDS', f'{what} symbolic offset, size={sz} object={p.obj}', extra=z3.Not(inb), stack=stack)
            st.pc.append(inb)
            if s.check(st) != 'sat':
                raise PathEnd()
        elif r == 'unknown':
            raise Inconclusive(f'solver unknown on bounds VC ({what})')
        return off

    # scalar cell access at concrete offset -------------------------------
    def overlapping(s, ob, off, sz):
        out = []
        for o, (csz, v) in ob.cells.items():
            if o < off + sz and off < o + csz:
                out.append((o, csz, v))
        out.sort(key=lambda x: x[0])
        return out

    def explode(s, ob, o):
        """replace cell at o by byte cells (BITS)"""
        csz, v = ob.cells.pop(o)
        bs = s.A.to_bytes(v, csz)
        for i, b in enumerate(bs):
            ob.cells[o + i] = (1, b)

    def clear_range(s, st, ob, off, sz):
        for o, csz, v in s.overlapping(ob, off, sz):
            if off <= o and o + csz <= off + sz:
                del ob.cells[o]
            else:
                if s.A.name != 'BITS' and not isinstance(v, int):
                    raise Inconclusive('INT mode: partial overwrite of a symbolic cell')
                s.explode(ob, o)
                for i in range(csz):
                    if off <= o + i < off + sz:
                        del ob.cells[o + i]

    def conv_loaded(s, st, v, tk, bits):
        """adapt a stored value to the type it is loaded as"""
        if tk == 'ptr':
            if isinstance(v, Ptr): return v
            return Ptr(None, v)
        if isinstance(v, Ptr):
            return v          # pointer travelling in an integer register
        if tk == 'int' and bits == 1:
            return s.A.i2b(st, v, 8)
        if s.A.real:
            if tk in ('float', 'double'):
                if isinstance(v, (Fraction,)) or (z3.is_expr(v) and v.sort().kind() == z3.Z3_REAL_SORT): return v
                if isinstance(v, int) and v == 0: return Fraction(0)
                if isinstance(v, IntV) and v.lazy is not None:
                    # bits read from a symbolic buffer as an integer (struct copy), now used as a float:
                    # the buffer content at that offset *as a real number*
                    obj, off, sz = v.lazy
                    key = (obj, sz, 'real')
                    f = s.ufs.get(key)
                    if f is None:
                        f = z3.Function(f'mem!{obj[1]}!{sz}r', z3.IntSort(), z3.RealSort()); s.ufs[key] = f
                    return f(off)
                raise Inconclusive('REAL mode: integer bits reinterpreted as floating point')
            if isinstance(v, Fraction) or (z3.is_expr(v) and not isinstance(v, IntV)):
                if isinstance(v, Fraction) and v == 0: return 0
                if bits in (32, 64):
                    return v      # a float copied through an integer register (struct copy): stays a real, may only be stored or cast back
                raise Inconclusive('REAL mode: floating point reinterpreted as integer bits')
        return v

    def load_scalar(s, st, ob, off, sz, tk, bits):
        c = ob.cells.get(off)
        if c is not None and c[0] == sz:
            return s.conv_loaded(st, c[1], tk, bits)
        ov = s.overlapping(ob, off, sz)
        if not ov:
            if ob.fill is not None:
                v = sum(ob.fill << (8 * i) for i in range(sz))
                if s.A.real and tk in ('float', 'double'):
                    if v != 0: raise Inconclusive('REAL mode: nonzero fill read as float')
                    return Fraction(0)
                return s.conv_loaded(st, v, tk, bits)
            if ob.owner != st.id:
                raise Inconclusive('internal: undef materialisation on a shared object')
            if tk in ('float', 'double') and s.A.real:
                v = s.A.fundef(st, s.fresh_name('undef'), tk)
            elif tk == 'ptr':
                v = s.A.undef(st, s.fresh_name('undef'), sz)
            else:
                v = s.A.undef(st, s.fresh_name('undef'), sz)
            ob.cells[off] = (sz, v)
            return s.conv_loaded(st, v, tk, bits)
        if s.A.name != 'BITS':
            if len(ov) == 1 and ov[0][0] <= off and off + sz <= ov[0][0] + ov[0][1] and isinstance(ov[0][2], (int, IntV)):
                # a narrow load out of one wider integer cell: (v div 2^(8*delta)) mod 2^(8*sz)
                o, csz, v = ov[0]
                u = s.A.U(st, v) if isinstance(v, IntV) else v
                sh = 8 * (off - o)
                r = s.A.mk((u / (1 << sh)) % (1 << (8 * sz)) if not isinstance(u, int) else (u >> sh) & MASK(8 * sz), 8 * sz, True)
                if isinstance(v, IntV) and v.lazy is not None and isinstance(r, IntV):
                    r.lazy = (v.lazy[0], v.lazy[1] + (off - o), sz)     # a piece of an untyped symbolic-buffer read
                return s.conv_loaded(st, r, tk, bits)
            # cells must tile the region exactly -> bundle
            pos = off; parts = []
            for o, csz, v in ov:
                if o != pos: raise Inconclusive('INT mode: misaligned wide load')
                parts.append((o - off, csz, v)); pos += csz
            if pos != off + sz: raise Inconclusive(f'INT mode: wide load over partly uninitialised cells (off={off} size={sz} cells={[(o, c) for o, c, _ in ov]} objsize={ob.size} kind={ob.kind})')
            if all(isinstance(v, int) for _, _, v in parts):
                return s.conv_loaded(st, sum(v << (8 * ro) for ro, _, v in parts), tk, bits)
            if tk in ('float', 'double') and all(isinstance(v, IntV) and v.lazy is not None for _, _, v in parts):
                # a float/double assembled from word-wise copied pieces of one symbolic buffer: the buffer content there as a real
                obj0, off0, _ = parts[0][2].lazy
                if all(v.lazy[0] == obj0 and z3.eq(z3.simplify(v.lazy[1] - off0), z3.IntVal(ro)) for ro, _, v in parts):
                    key = (obj0, sz, 'real')
                    f = s.ufs.get(key)
                    if f is None:
                        f = z3.Function(f'mem!{obj0[1]}!{sz}r', z3.IntSort(), z3.RealSort()); s.ufs[key] = f
                    return f(off0)
            return Bundle(parts, sz)
        bs = []
        for i in range(sz):
            a = off + i
            hit = None
            for o, csz, v in ov:
                if o <= a < o + csz:
                    hit = (o, csz, v); break
            if hit is None:
                if ob.fill is not None:
                    bs.append(ob.fill)
                else:
                    u = s.A.undef(st, s.fresh_name('undef'), 1)
                    ob.cells[a] = (1, u)
                    bs.append(u)
            else:
                o, csz, v = hit
                bs.append(s.A.to_bytes(v, csz)[a - o] if csz > 1 else v)
        return s.conv_loaded(st, s.A.from_bytes(bs), tk, bits)

    def store_scalar(s, st, ob, off, sz, v):
        c = ob.cells.get(off)
        if not (c is not None and c[0] == sz and len(s.overlapping(ob, off, sz)) == 1):
            s.clear_range(st, ob, off, sz)
        if isinstance(v, Bundle):
            for ro, csz, x in v.parts:
                ob.cells[off + ro] = (csz, x)
            return
        if is_bool(v):
            v = s.A.b2i(v, 8 * sz)
        ob.cells[off] = (sz, v)

    def scalar_kind(s, t):
        if t.k == 'int': return 'int', t.bits
        if t.k == 'float': return 'float', 32
        if t.k == 'double': return 'double', 64
        if t.k == 'ptr': return 'ptr', 64
        raise Inconclusive(f'scalar kind of {t}')

    def record_access(s, st, p, ob, write):
        f = st.foot
        if f is None or not f.get('on'):
            return
        key = 'stores' if write else 'loads'
        if ob.kind == 'global':
            f['mutable_globals'].add(str(p.obj))
        shared = ob.kind != 'stack' or p.obj in f['shared']
        f[key].add((ob.kind, 'shared' if shared else 'private'))
        if write and shared:
            f['outer_stores'].add(str(p.obj))

    def load(s, st, p, ty, stack=None):
        rt = s.L.res(ty)
        if isinstance(p, PtrIte):
            # feasibility first: the not-taken side may be an invalid pointer
            ra = s.check(st, zbool(p.c)); rb = s.check(st, z3.Not(zbool(p.c)))
            if ra == 'unsat': return s.load(st, p.b, ty, stack)
            if rb == 'unsat': return s.load(st, p.a, ty, stack)
            va = s.load(st, p.a, ty, stack); vb = s.load(st, p.b, ty, stack)
            return s.select(st, p.c, va, vb, rt)
        if rt.k == 'struct':
            return Agg([s.load(st, s.padd(st, p, s.L.field_off(rt, i)), f, stack) for i, f in enumerate(rt.fields)])
        if rt.k in ('array', 'vector'):
            es, _ = s.L.size_align(rt.elem)
            return Agg([s.load(st, s.padd(st, p, i * es), rt.elem, stack) for i in range(rt.n)])
        sz, _ = s.L.size_align(rt)
        if rt.k == 'int' and rt.bits % 8 == 0 and rt.bits // 8 < sz:
            sz = rt.bits // 8        # i24, i48, ...: the access touches the store size, not the (padded) alloc size
        tk, bits = s.scalar_kind(rt)
        ob = s.getobj(st, p, 'load', stack=stack)
        s.record_access(st, p, ob, False)
        off = s.bounds(st, ob, p, sz, 'load', stack)
        if off is not None:
            if ob.owner != st.id and ob.cells.get(off) is None:
                ob = s.getobj(st, p, 'load', own=True, stack=stack)
            return s.load_scalar(st, ob, off, sz, tk, bits)
        return s.load_symbolic(st, p, ob, sz, tk, bits)

    def store(s, st, p, ty, v, stack=None):
        rt = s.L.res(ty)
        if isinstance(p, PtrIte):
            ra = s.check(st, zbool(p.c)); rb = s.check(st, z3.Not(zbool(p.c)))
            if ra == 'unsat': return s.store(st, p.b, ty, v, stack)
            if rb == 'unsat': return s.store(st, p.a, ty, v, stack)
            oa = s.load(st, p.a, ty, stack); ob_ = s.load(st, p.b, ty, stack)
            s.store(st, p.a, ty, s.select(st, p.c, v, oa, rt), stack)
            s.store(st, p.b, ty, s.select(st, p.c, ob_, v, rt), stack)
            return
        if rt.k == 'struct':
            for i, f in enumerate(rt.fields):
                s.store(st, s.padd(st, p, s.L.field_off(rt, i)), f, v.e[i], stack)
            return
        if rt.k in ('array', 'vector'):
            es, _ = s.L.size_align(rt.elem)
            for i in range(rt.n):
                s.store(st, s.padd(st, p, i * es), rt.elem, v.e[i], stack)
            return
        sz, _ = s.L.size_align(rt)
        if rt.k == 'int' and rt.bits % 8 == 0 and rt.bits // 8 < sz:
            sz = rt.bits // 8
        ob = s.getobj(st, p, 'store', write=True, stack=stack)
        s.record_access(st, p, ob, True)
        off = s.bounds(st, ob, p, sz, 'store', stack)
        if off is not None:
            s.store_scalar(st, ob, off, sz, v)
            return
        s.store_symbolic(st, p, ob, sz, v)

    def padd(s, st, p, k):
        if k == 0: return p
        if isinstance(p, PtrIte): return p.map(lambda q: s.padd(st, q, k))
        return Ptr(p.obj, s.A.off_add(st, p.off, k, 64, 1))

    # symbolic-offset access --------------------------------------------------
    def candidates(s, st, ob, p, sz):
        if not isinstance(ob.size, int):
            return None
        if ob.size // sz > s.cfg.sym_cells_cap:
            raise Inconclusive(f'symbolic-offset access to an object of {ob.size} bytes (cap {s.cfg.sym_cells_cap} cells)')
        # alignment VC: offset is a multiple of the access size
        cands = list(range(0, ob.size - sz + 1, sz))
        anyc = z3.Or([s.A.off_eq(p.off, k) for k in cands]) if cands else z3.BoolVal(False)
        if s.check(st, z3.Not(anyc)) != 'unsat':
            raise Inconclusive('symbolic-offset access not aligned to its size')
        return cands

    def load_symbolic(s, st, p, ob, sz, tk, bits):
        cands = s.candidates(st, ob, p, sz)
        if cands is None:
            return s.load_uf(st, p, ob, sz, tk, bits)
        if ob.owner != st.id:
            ob = s.getobj(st, p, 'load', own=True)
        feas = []
        for k in cands:
            if s.check(st, s.A.off_eq(p.off, k)) != 'unsat':
                feas.append(k)
        if not feas:
            raise PathEnd()
        r = None
        for k in reversed(feas):
            v = s.load_scalar(st, ob, k, sz, tk, bits)
            if r is None:
                r = v
            else:
                r = s.ite_val(st, s.A.off_eq(p.off, k), v, r, tk, bits)
        return r

    def ite_val(s, st, c, a, b, tk, bits):
        if isinstance(a, Bundle) or isinstance(b, Bundle):
            if isinstance(a, Bundle) and isinstance(b, Bundle) and [(ro, sz) for ro, sz, _ in a.parts] == [(ro, sz) for ro, sz, _ in b.parts]:
                parts = []
                for (ro, sz, x), (_, _, y) in zip(a.parts, b.parts):
                    isr = any(isinstance(q, Fraction) or (z3.is_expr(q) and not isinstance(q, z3.BoolRef)) for q in (x, y))
                    parts.append((ro, sz, s.A.fselect(st, c, x, y, 'double') if isr else s.ite_val(st, c, x, y, 'int', 8 * sz)))
                return Bundle(parts, a.size)
            raise Inconclusive('INT mode: select between differently shaped wide loads')
        if isinstance(a, PtrIte) or isinstance(b, PtrIte):
            return PtrIte(c, a, b)
        if isinstance(a, Ptr) or isinstance(b, Ptr):
            if isinstance(a, Ptr) and isinstance(b, Ptr) and a.obj == b.obj:
                if isinstance(a.off, int) and isinstance(b.off, int) and a.off == b.off:
                    return a
                return Ptr(a.obj, s.A.ite(st, c, a.off, b.off, 64) if s.A.name == 'BITS' else z3.If(c, a.off, b.off))
            return PtrIte(c, a, b)
        if tk == 'int' and bits == 1:
            if isinstance(a, int) and isinstance(b, int) and a == b: return a
            return z3.If(c, zbool(a), zbool(b))
        if tk in ('float', 'double'):
            return s.A.fselect(st, c, a, b, tk)
        if s.A.real and any(isinstance(x, Fraction) or (z3.is_expr(x) and not isinstance(x, z3.BoolRef)) for x in (a, b)):
            return s.A.fselect(st, c, a, b, 'double')       # reals travelling in integer registers
        return s.A.ite(st, c, a, b, bits)

    def store_symbolic(s, st, p, ob, sz, v):
        cands = s.candidates(st, ob, p, sz)
        if cands is None:
            raise Inconclusive('store through a symbolic offset into a symbolic-size object')
        tk = 'ptr' if isinstance(v, Ptr) else 'int'
        for k in cands:
            c = s.A.off_eq(p.off, k)
            if s.check(st, c) == 'unsat':
                continue
            old = s.load_scalar(st, ob, k, sz, 'int', 8 * sz)
            if s.A.real and not isinstance(v, (int, IntV)):
                new = s.A.fselect(st, c, v, old, 'double')
            else:
                new = s.ite_val(st, c, v, old, tk, 8 * sz)
            s.store_scalar(st, ob, k, sz, new)

    def load_uf(s, st, p, ob, sz, tk, bits):
        """read from a symbolic-size buffer: an uninterpreted function of the offset (buffer contents are arbitrary)"""
        key = (p.obj, sz, tk)
        A = s.A
        if A.name == 'BITS':
            f = s.ufs.get(key)
            if f is None:
                f = z3.Function(f'mem!{p.obj[1]}!{sz}', z3.BitVecSort(64), z3.BitVecSort(8 * sz)); s.ufs[key] = f
            v = f(A.off_term(p.off))
            return s.conv_loaded(st, v, tk, bits)
        if tk in ('float', 'double'):
            key = (p.obj, sz, 'real')
            f = s.ufs.get(key)
            if f is None:
                f = z3.Function(f'mem!{p.obj[1]}!{sz}r', z3.IntSort(), z3.RealSort()); s.ufs[key] = f
            return f(A.off_term(p.off))
        f = s.ufs.get(key)
        if f is None:
            f = z3.Function(f'mem!{p.obj[1]}!{sz}', z3.IntSort(), z3.IntSort()); s.ufs[key] = f
        t = f(A.off_term(p.off))
        st.pc.append(z3.And(t >= 0, t < (1 << (8 * sz))))
        r = IntV(t, 8 * sz, True)
        r.lazy = (p.obj, A.off_term(p.off), sz)
        return r

    # byte-range operations -----------------------------------------------------
    def copy_range(s, st, dst, src, n, what, stack=None):
        """memcpy/memmove of a concrete number of bytes"""
        if n == 0:
            return
        sob = s.getobj(st, src, what + ' source', stack=stack)
        so = s.bounds(st, sob, src, n, what + ' source', stack)
        dob = s.getobj(st, dst, what + ' destination', write=True, stack=stack)
        do = s.bounds(st, dob, dst, n, what + ' destination', stack)
        s.record_access(st, src, sob, False)
        s.record_access(st, dst, dob, True)
        if so is None or do is None:
            # symbolic address: word-wise through the symbolic-offset load/store path
            chunk = 8 if n % 8 == 0 else 4 if n % 4 == 0 else 1
            if s.A.real:
                # INT/REAL mode: word-wise copies; the word size follows the cells of the source (values stay untyped
                # until used: a real copied through an integer word remains a real)
                if do is None or chunk == 1:
                    raise Inconclusive(f'{what} with a symbolic address in INT/REAL mode')
                if isinstance(sob.size, int) and sob.cells:
                    cs = min(c[0] for c in sob.cells.values())
                    if cs not in (4, 8) or n % cs:
                        raise Inconclusive(f'{what} with a symbolic address in INT/REAL mode (cell size {cs})')
                    chunk = cs
                else:
                    chunk = 4 if n % 4 == 0 else chunk
            ity = Ty('int', 8 * chunk)
            vals = [s.load(st, s.padd(st, src, i), ity, stack) for i in range(0, n, chunk)]
            for k, i in enumerate(range(0, n, chunk)):
                s.store(st, s.padd(st, dst, i), ity, vals[k], stack)
            return
        if sob is dob or src.obj == dst.obj:
            sob = dob
        cells = []
        for o, csz, v in s.overlapping(sob, so, n):
            if so <= o and o + csz <= so + n:
                cells.append((o - so, csz, v))
            else:
                if s.A.name != 'BITS' and not isinstance(v, int):
                    raise Inconclusive('INT mode: memcpy cuts through a symbolic cell')
                bs = s.A.to_bytes(v, csz)
                for i in range(csz):
                    if so <= o + i < so + n:
                        cells.append((o + i - so, 1, bs[i]))
        covered = set()
        for ro, csz, v in cells:
            covered.update(range(ro, ro + csz))
        if sob.fill is not None and len(covered) < n:
            for i in range(n):
                if i not in covered:
                    cells.append((i, 1, sob.fill))
        s.clear_range(st, dob, do, n)
        for ro, csz, v in cells:
            dob.cells[do + ro] = (csz, v)
        if dob.fill is not None and sob.fill is None and len(covered) < n:
            # bytes that are undef in the source must read as undef in the destination, not as the fill value
            for i in range(n):
                if i not in covered:
                    dob.cells[do + i] = (1, s.A.undef(st, s.fresh_name('undef'), 1))

    def set_range(s, st, dst, byte, n, stack=None):
        if n == 0:
            return
        dob = s.getobj(st, dst, 'memset', write=True, stack=stack)
        do = s.bounds(st, dob, dst, n, 'memset', stack)
        s.record_access(st, dst, dob, True)
        if do is None:
            raise Inconclusive('memset with a symbolic address')
        if not isinstance(byte, int):
            raise Inconclusive('memset with a symbolic byte')
        if do == 0 and isinstance(dob.size, int) and n == dob.size:
            dob.cells = {}
            dob.fill = byte
            return
        if n > 65536:
            raise Inconclusive('large partial memset')
        s.clear_range(st, dob, do, n)
        i = 0
        while i < n:
            step = 8 if (n - i >= 8 and (do + i) % 8 == 0) else 1
            dob.cells[do + i] = (step, sum(byte << (8 * j) for j in range(step)))
            i += step

    def loadbytes(s, st, p, n, what, stack=None):
        ob = s.getobj(st, p, what, stack=stack)
        off = s.bounds(st, ob, p, n, what, stack)
        if off is None:
            raise Inconclusive(f'{what} with a symbolic address')
        if ob.owner != st.id:
            ob = s.getobj(st, p, what, own=True, stack=stack)
        out = []
        for i in range(n):
            out.append(s.load_scalar(st, ob, off + i, 1, 'int', 8))
        return out

    def storebytes(s, st, p, bs, what, stack=None):
        if not bs:
            return
        ob = s.getobj(st, p, what, write=True, stack=stack)
        off = s.bounds(st, ob, p, len(bs), what, stack)
        if off is None:
            raise Inconclusive(f'{what} with a symbolic address')
        s.clear_range(st, ob, off, len(bs))
        for i, b in enumerate(bs):
            ob.cells[off + i] = (1, b)

    def store_raw(s, st, p, sz, v):
        ob = s.getobj(st, p, 'store', write=True)
        off = s.A.off_conc(p.off)
        if off is None: raise Inconclusive('raw store at symbolic offset')
        s.store_scalar(st, ob, off, sz, v)

    def load_raw(s, st, p, sz):
        ob = s.getobj(st, p, 'load', own=True)
        off = s.A.off_conc(p.off)
        if off is None: raise Inconclusive('raw load at symbolic offset')
        return s.load_scalar(st, ob, off, sz, 'int', 8 * sz)

    def getobj_nocheck(s, st, oid):
        ob = st.mem[oid]
        if ob.owner != st.id:
            ob = ob.clone(st.id); st.mem[oid] = ob
        return ob

    def free_obj(s, st, oid):
        ob = st.mem.pop(oid, None)
        st.dead.add(oid)

    # ------------------------------------------------------------------ GEP
    def gep(s, st, base, bt, idx, ibits):
        if isinstance(base, PtrIte):
            return base.map(lambda q: s.gep(st, q, bt, idx, ibits))
        if not isinstance(base, Ptr):
            base = Ptr(None, base)
        off = base.off
        A = s.A
        sz, _ = s.L.size_align(bt)
        off = A.off_add(st, off, idx[0], ibits[0], sz) if not (isinstance(idx[0], int) and idx[0] == 0) else off
        t = bt
        for k in range(1, len(idx)):
            t = s.L.res(t)
            i = idx[k]
            if t.k == 'struct':
                if not isinstance(i, int): raise Inconclusive('symbolic struct index')
                fo = s.L.field_off(t, i)
                if fo: off = A.off_add(st, off, fo, 64, 1)
                t = t.fields[i]
            else:
                t = t.elem
                es, _ = s.L.size_align(t)
                if not (isinstance(i, int) and i == 0):
                    off = A.off_add(st, off, i, ibits[k], es)
        return Ptr(base.obj, off)

    # ------------------------------------------------------------------ driver
    def run(s, fname, args=()):
        st = State()
        f = s.mod.funcs[fname]
        work = [(st, [Frame(f, list(args))])]
        s.funcs_entered.add(fname)
        while work:
            st, stack = work.pop()
            try:
                s.exec_path(st, stack, work)
                s.finish_path(st, 'returned')
            except PathEnd:
                s.finish_path(st, 'ended')
            except Hang as h:
                s.fail(st, 'HANG', f'loop did not terminate within {s.cfg.hang_cap} iterations: {h}')
                s.finish_path(st, 'ended')
            except Inconclusive as e:
                s.note_inconclusive(str(e))
                s.finish_path(st, 'inconclusive')
            s.npaths += 1
            if s.npaths > s.cfg.max_paths:
                s.note_inconclusive(f'path cap {s.cfg.max_paths} reached')
                break
            if s.ninstr > s.cfg.max_instrs:
                s.note_inconclusive(f'instruction cap {s.cfg.max_instrs} reached')
                break

    def finish_path(s, st, how):
        if len(s.completed) < 64:
            s.completed.append({'how': how, 'n_inputs': len(st.inputs), 'n_pc': len(st.pc), 'observes': len(st.observes)})
        s.last_state = st
        s.path_kinds[how] = s.path_kinds.get(how, 0) + 1
        if s.cfg.keep_paths:
            s.paths.append({'how': how, 'tainted': st.tainted, 'pc': list(st.pc), 'observes': list(st.observes),
                            'asserted': list(st.asserted), 'state': st})
        if how == 'returned' and len(s.traces) < s.cfg.max_traces and not st.tainted:
            r, m = 'unknown', None
            if s.A.name == 'BITS' and len(st.inputs) <= 64:
                # prefer a model whose inputs are pairwise distinct and non-zero: a differential run on all-equal / all-zero inputs
                # cannot see a permuted or dropped value (best effort, small budget; falls back to any model)
                try:
                    for kinds in (None, ('u64', 'u32', 'u16', 'u8', 'f32', 'f64', 'size', 'i32', 'i64')):
                        groups = {}
                        for kd, _, v in st.inputs:
                            if z3.is_expr(v) and z3.is_bv(v) and (kinds is None or kd in kinds):
                                groups.setdefault(v.size(), []).append(v)
                        div = []
                        for vs in groups.values():
                            vs = vs[:24]
                            div += [v != 0 for v in vs]
                            div += [vs[i] != vs[j] for i in range(len(vs)) for j in range(i + 1, len(vs))]
                        if div:
                            r, m = s._check_with(s.solver, st, z3.And(*div), True)
                            if r != 'sat' and s.fallback is not None:
                                r, m = s._check_with(s.fallback, st, z3.And(*div), True)
                        if r == 'sat':
                            break
                except Exception as ex:
                    if os.environ.get('VF_DEBUG'): print('diverse-model query failed:', repr(ex), file=sys.stderr)
                    r, m = 'unknown', None
            if os.environ.get('VF_DEBUG'): print('diverse-model:', r, [type(v).__name__ for _, _, v in st.inputs][:6], file=sys.stderr)
            if r != 'sat':
                r, m = s.check(st, want_model=True)
            if r == 'sat':
                obs = []
                for k, v in st.observes:
                    obs.append((k, s.A.mval(m, v)))
                asr = []
                for site, c in st.asserted:
                    if isinstance(c, int): asr.append((site, int(bool(c))))
                    else: asr.append((site, 1 if z3.is_true(m.eval(c, model_completion=True)) else 0))
                s.traces.append({'inputs': s.model_inputs(st, m), 'ufs': s.model_ufs(st, m), 'observes': obs, 'asserts': asr})

    def fork(s, st, stack):
        return st.clone(), [fr.clone() for fr in stack]

    def goto(s, fr, label):
        fr.prev = fr.bb
        fr.bb = label
        fr.ip = 0
        n = fr.visits.get(label, 0) + 1
        fr.visits[label] = n
        if s.cfg.hang_cap and n > s.cfg.hang_cap:
            raise Hang(f'{fr.f.name} {label}')
        if n > s.cfg.loop_cap:
            raise Inconclusive(f'loop bound {s.cfg.loop_cap} exceeded in {fr.f.name} {label}')

    def undef_dependence(s, st, c):
        """does the truth of c depend on the value of uninitialised data? (two-valuation query)"""
        uv = s.undef_vars(c)
        if not uv:
            return None
        subs = [(v, z3.Const(str(v) + "'", v.sort())) for v in uv]
        c2 = z3.substitute(c, *subs)
        pc2 = [z3.substitute(p, *subs) for p in st.pc]
        r = s.check(st, z3.And(*pc2, c != c2) if pc2 else c != c2)
        if r == 'sat':
            return sorted(str(v) for v in uv)
        if r == 'unknown':
            raise Inconclusive('solver unknown in uninitialised-data dependence query')
        return None

    def undef_vars(s, t):
        seen = set(); out = {}
        stk = [t]
        while stk:
            x = stk.pop()
            i = x.get_id()
            if i in seen: continue
            seen.add(i)
            if z3.is_const(x) and x.decl().kind() == z3.Z3_OP_UNINTERPRETED:
                if str(x).startswith('undef!'): out[str(x)] = x
            else:
                stk.extend(x.children())
        return list(out.values())

    def branch(s, st, stack, work, c, tl, fl, what):
        fr = stack[-1]
        if isinstance(c, int):
            s.goto(fr, tl if c else fl)
            return
        rt = s.check(st, c)
        if rt == 'unknown':
            raise Inconclusive(f'solver unknown on {what} in {fr.f.name}')
        if rt == 'unsat':
            s.goto(fr, fl); return
        rf = s.check(st, z3.Not(c))
        if rf == 'unknown':
            raise Inconclusive(f'solver unknown on {what} in {fr.f.name}')
        if rf == 'unsat':
            s.goto(fr, tl); return
        dep = s.undef_dependence(st, c)
        if dep:
            s.fail(st, 'UNINIT-DECISION', f'{what} in {fr.f.name} depends on uninitialised data', stack=stack)
        st2, stack2 = s.fork(st, stack)
        st2.pc.append(z3.Not(c))
        st.pc.append(c)
        work.append((st2, stack2))
        try:
            s.goto(stack2[-1], fl)
        except Inconclusive as e:
            work.pop(); s.note_inconclusive(str(e))
        except Hang as h:
            work.pop(); s.fail(st2, 'HANG', f'loop did not terminate within {s.cfg.hang_cap} iterations: {h}')
        s.goto(fr, tl)

    def concretize(s, st, stack, work, v, bits, what, limit=None):
        """fork on each feasible value of v (small domains); the current instruction is re-executed in the forks"""
        if isinstance(v, int):
            return v
        limit = limit or s.cfg.concretize_limit
        t = s.A.term(st, v, bits)
        vals = []
        extra = []
        while len(vals) <= limit:
            r, m = s.check(st, z3.And(*extra) if extra else None, want_model=True)
            if r == 'unknown':
                raise Inconclusive(f'solver unknown while enumerating {what}')
            if r != 'sat':
                break
            x = m.eval(t, model_completion=True).as_long()
            vals.append(x)
            extra.append(t != x)
        if len(vals) > limit:
            raise Inconclusive(f'more than {limit} values for {what}')
        if not vals:
            raise PathEnd()
        for x in vals[1:]:
            st2, stack2 = s.fork(st, stack)
            st2.pc.append(t == x)
            stack2[-1].ip -= 1
            work.append((st2, stack2))
        st.pc.append(t == vals[0])
        return vals[0]

    # exceptions -----------------------------------------------------------------
    def unwind(s, st, stack):
        while stack:
            fr = stack[-1]
            if fr.pending is not None:
                ins = fr.pending; fr.pending = None
                s.goto(fr, ins.extra['unwind'])
                return True
            s.pop_frame(st, stack)
            if stack and stack[-1].calling is not None:
                ins = stack[-1].calling; stack[-1].calling = None
                if ins.op == 'invoke':
                    stack[-1].pending = ins
        return False

    def raise_exc(s, st, stack, tinfo, obj=None, from_call=None):
        st.exc = (tinfo, obj)
        st.events.append(('throw', tinfo))
        fr = stack[-1]
        if from_call is not None and from_call.op == 'invoke':
            fr.pending = from_call
        if not s.unwind(st, stack):
            s.fail(st, 'UNCAUGHT-EXCEPTION', str(tinfo))
            raise PathEnd()

    def pop_frame(s, st, stack):
        fr = stack.pop()
        for oid in fr.allocas:
            if oid in st.mem:
                del st.mem[oid]
            st.dead.add(oid)

    # main loop ------------------------------------------------------------------
    def exec_path(s, st, stack, work):
        A = s.A; L = s.L
        while stack:
            fr = stack[-1]; f = fr.f
            bb = f.blocks[fr.bb]
            if fr.ip == 0:
                dm = s.doomed_blocks(f)
                if fr.bb in dm and bb.instrs[0].op != 'landingpad':
                    st.events.append(('cut', f.name[:60], fr.bb)); s.cuts += 1
                    s.raise_exc(st, stack, dm[fr.bb])
                    continue
            ins = bb.instrs[fr.ip]; fr.ip += 1; s.ninstr += 1
            op = ins.op; loc = fr.loc
            if op == 'phi':
                vals = {}; j = fr.ip - 1
                while bb.instrs[j].op == 'phi':
                    pi = bb.instrs[j]
                    for v, l in pi.ops:
                        if l == fr.prev:
                            vals[pi.res] = s.val(st, fr, v); break
                    else:
                        raise Inconclusive(f'phi without matching predecessor in {f.name}')
                    j += 1
                loc.update(vals); fr.ip = j; continue
            if op in BIN_OPS:
                t = L.res(ins.ty)
                if t.k == 'vector':
                    a = s.val(st, fr, ins.ops[0]); b = s.val(st, fr, ins.ops[1]); et = L.res(t.elem)
                    loc[ins.res] = Agg([s.binop(st, op, x, y, et) for x, y in zip(a.e, b.e)])
                else:
                    loc[ins.res] = s.binop(st, op, s.val(st, fr, ins.ops[0]), s.val(st, fr, ins.ops[1]), t)
                continue
            if op == 'icmp':
                t = L.res(ins.extra['opty'])
                loc[ins.res] = s.icmp(st, ins.extra['pred'], s.val(st, fr, ins.ops[0]), s.val(st, fr, ins.ops[1]), t)
                continue
            if op == 'fcmp':
                t = L.res(ins.extra['opty'])
                loc[ins.res] = A.fcmp(st, ins.extra['pred'], s.val(st, fr, ins.ops[0]), s.val(st, fr, ins.ops[1]), t.k)
                s.fp_ops['fcmp'] = s.fp_ops.get('fcmp', 0) + 1
                continue
            if op == 'fneg':
                loc[ins.res] = A.fneg(st, s.val(st, fr, ins.ops[0]), L.res(ins.ty).k); continue
            if op == 'alloca':
                n = s.val(st, fr, ins.ops[0])
                if not isinstance(n, int): raise Inconclusive('alloca with symbolic count')
                sz, _ = L.size_align(ins.extra['aty'])
                oid = s.alloc(st, sz * n, 'stack'); fr.allocas.append(oid)
                loc[ins.res] = Ptr(oid, 0); continue
            if op in ('bitcast', 'addrspacecast'):
                v = s.val(st, fr, ins.ops[0])
                ft = L.res(ins.extra['from']); tt = L.res(ins.ty)
                if ft.k == 'ptr' or tt.k == 'ptr' or ft.k == tt.k:
                    loc[ins.res] = v
                else:
                    loc[ins.res] = s.bitcast(st, v, ft, tt)
                continue
            if op == 'ptrtoint':
                v = s.val(st, fr, ins.ops[0])
                loc[ins.res] = v.off if (isinstance(v, Ptr) and v.obj is None) else v
                continue
            if op == 'inttoptr':
                v = s.val(st, fr, ins.ops[0]); loc[ins.res] = v if isinstance(v, Ptr) else Ptr(None, v); continue
            if op == 'getelementptr':
                base = s.val(st, fr, ins.ops[0])
                idx = [s.val(st, fr, o) for o in ins.ops[1:]]
                ib = [L.res(o.ty).bits for o in ins.ops[1:]]
                loc[ins.res] = s.gep(st, base, ins.extra['base'], idx, ib); continue
            if op == 'load':
                if ins.extra and ins.extra.get('atomic') and st.foot is not None and st.foot.get('on'): st.foot['atomics'].add('atomic load')
                loc[ins.res] = s.load(st, s.val(st, fr, ins.ops[0]), ins.ty, stack); continue
            if op == 'store':
                if ins.extra and ins.extra.get('atomic') and st.foot is not None and st.foot.get('on'): st.foot['atomics'].add('atomic store')
                s.store(st, s.val(st, fr, ins.ops[1]), ins.ops[0].ty, s.val(st, fr, ins.ops[0]), stack); continue
            if op in ('atomicrmw', 'cmpxchg'):
                # executed sequentially (single-threaded semantics); inside a C16 region they are recorded as shared state
                if st.foot is not None and st.foot.get('on'): st.foot['atomics'].add(op)
                p_ = s.val(st, fr, ins.ops[0]); ty_ = ins.ops[1].ty; old_ = s.load(st, p_, ty_, stack)
                bits_ = s.L.res(ty_).bits if s.L.res(ty_).k == 'int' else 64
                if op == 'atomicrmw':
                    v_ = s.val(st, fr, ins.ops[1]); k_ = ins.extra['rmw']
                    if k_ == 'xchg': new_ = v_
                    elif k_ in ('add', 'sub', 'and', 'or', 'xor'): new_ = s.binop(st, k_, old_, v_, s.L.res(ty_))
                    else: raise Inconclusive('atomicrmw ' + k_)
                    s.store(st, p_, ty_, new_, stack); loc[ins.res] = old_
                else:
                    e_ = s.val(st, fr, ins.ops[1]); n_ = s.val(st, fr, ins.ops[2])
                    eq_ = s.icmp(st, 'eq', old_, e_, s.L.res(ty_))
                    s.store(st, p_, ty_, s.select(st, eq_, n_, old_, s.L.res(ty_)) if not isinstance(eq_, int) else (n_ if eq_ else old_), stack)
                    loc[ins.res] = Agg([old_, eq_])
                continue
            if op in ('zext', 'sext', 'trunc'):
                v = s.val(st, fr, ins.ops[0]); ft = L.res(ins.extra['from']); tt = L.res(ins.ty)
                if ft.k == 'vector':
                    loc[ins.res] = Agg([s.intcast(st, op, x, ft.elem.bits, tt.elem.bits) for x in v.e])
                else:
                    loc[ins.res] = s.intcast(st, op, v, ft.bits, tt.bits)
                continue
            if op in ('fpext', 'fptrunc', 'uitofp', 'sitofp', 'fptoui', 'fptosi'):
                v = s.val(st, fr, ins.ops[0]); ft = L.res(ins.extra['from']); tt = L.res(ins.ty)
                if op in ('uitofp', 'sitofp') and ft.bits == 1:
                    v = A.b2i(v, 8) if not isinstance(v, int) else v
                    ft = I8
                    if op == 'sitofp' : raise Inconclusive('sitofp i1')
                r = A.fcast(st, op, v, ft.k, tt.k, getattr(ft, 'bits', 0), getattr(tt, 'bits', 0))
                loc[ins.res] = r
                s.fp_ops[op] = s.fp_ops.get(op, 0) + 1
                continue
            if op == 'select':
                c = s.val(st, fr, ins.ops[0]); a = s.val(st, fr, ins.ops[1]); b = s.val(st, fr, ins.ops[2])
                if isinstance(c, int):
                    loc[ins.res] = a if c else b
                else:
                    loc[ins.res] = s.select(st, c, a, b, L.res(ins.ty))
                continue
            if op == 'freeze':
                loc[ins.res] = s.val(st, fr, ins.ops[0]); continue
            if op == 'extractvalue':
                v = s.val(st, fr, ins.ops[0])
                for i in ins.extra['idx']: v = v.e[i]
                loc[ins.res] = v; continue
            if op == 'insertvalue':
                v = s.val(st, fr, ins.ops[0]); x = s.val(st, fr, ins.ops[1])
                loc[ins.res] = s.insertvalue(v, ins.extra['idx'], x); continue
            if op == 'extractelement':
                v = s.val(st, fr, ins.ops[0]); i = s.val(st, fr, ins.ops[1])
                if not isinstance(i, int): raise Inconclusive('symbolic vector index')
                loc[ins.res] = v.e[i]; continue
            if op == 'insertelement':
                v = s.val(st, fr, ins.ops[0]); x = s.val(st, fr, ins.ops[1]); i = s.val(st, fr, ins.ops[2])
                if not isinstance(i, int): raise Inconclusive('symbolic vector index')
                n = Agg(v.e); n.e[i] = x; loc[ins.res] = n; continue
            if op == 'shufflevector':
                a = s.val(st, fr, ins.ops[0]); b = s.val(st, fr, ins.ops[1]); m = s.val(st, fr, ins.ops[2])
                both = a.e + b.e
                loc[ins.res] = Agg([both[i] if isinstance(i, int) else both[0] for i in m.e]); continue
            if op == 'br':
                if len(ins.ops) == 1:
                    s.goto(fr, ins.ops[0]); continue
                s.branch(st, stack, work, s.val(st, fr, ins.ops[0]), ins.ops[1], ins.ops[2], 'branch'); continue
            if op == 'switch':
                s.do_switch(st, stack, work, ins); continue
            if op == 'ret':
                rv = s.val(st, fr, ins.ops[0]) if ins.ops else None
                s.pop_frame(st, stack)
                if stack:
                    c = stack[-1]; ci = c.calling; c.calling = None
                    if ci is not None:
                        if ci.res: c.loc[ci.res] = rv
                        if ci.op == 'invoke': s.goto(c, ci.extra['normal'])
                else:
                    s.retval = rv
                continue
            if op == 'landingpad':
                loc[ins.res] = Agg([Ptr(('exc', 0), 0), 1]); continue
            if op == 'resume':
                s.pop_frame(st, stack)
                if stack and stack[-1].calling is not None:
                    ci = stack[-1].calling; stack[-1].calling = None
                    if ci.op == 'invoke': stack[-1].pending = ci
                if not s.unwind(st, stack):
                    s.fail(st, 'UNCAUGHT-EXCEPTION', str(st.exc[0] if st.exc else None))
                    raise PathEnd()
                continue
            if op == 'unreachable':
                s.fail(st, 'UB-UNREACHABLE', f'unreachable executed in {f.name}', stack=stack)
                raise PathEnd()
            if op in ('call', 'invoke'):
                s.do_call(st, stack, work, ins)
                continue
            if op == 'fence':
                if st.foot is not None: st.foot['atomics'].add('fence')
                continue
            raise Inconclusive(f'unsupported instruction {op}: {ins.line[:120]}')

    # ------------------------------------------------------------------ instruction helpers
    def binop(s, st, op, a, b, t):
        A = s.A
        if op[0] == 'f' and op in ('fadd', 'fsub', 'fmul', 'fdiv', 'frem'):
            s.fp_ops[op] = s.fp_ops.get(op, 0) + 1
            return A.fbin(st, op, a, b, t.k)
        bits = t.bits
        if bits == 1:
            if op == 'and': return bool_and(a, b)
            if op == 'or': return bool_or(a, b)
            if op in ('xor', 'add', 'sub'): return bool_xor(a, b)
            if op == 'mul': return bool_and(a, b)
            raise Inconclusive(f'i1 {op}')
        if isinstance(a, Ptr) or isinstance(b, Ptr):
            return s.ptr_arith(st, op, a, b, bits)
        if isinstance(a, Bundle) or isinstance(b, Bundle):
            if isinstance(a, Bundle) and op == 'lshr' and isinstance(b, int) and b % 8 == 0:
                sh = b // 8
                return Bundle([(ro - sh, sz, x) for ro, sz, x in a.parts if ro >= sh], a.size)
            raise Inconclusive('INT mode: arithmetic on a bundled wide load')
        if op in ('shl', 'lshr', 'ashr') and isinstance(b, int) and b >= bits and A.name == 'BITS':
            # LLVM: a shift by the width or more is poison. Modelled as an arbitrary value, so that whatever depends on it is found
            # (an index built from it leaves the storage for some value; x86 would compute x << (b mod width))
            return s.undef_of(st, t)
        return A.binop(st, op, a, b, bits)

    def ptr_arith(s, st, op, a, b, bits):
        A = s.A
        if isinstance(a, Ptr) and isinstance(b, Ptr):
            if op == 'sub' and a.obj == b.obj:
                if A.name == 'BITS': return A.binop(st, 'sub', a.off, b.off, 64)
                return A.mk(a.off - b.off, 64)
            if a.obj is None and b.obj is None:
                return A.binop(st, op, a.off, b.off, bits)
            raise Inconclusive(f'pointer {op} across objects')
        if isinstance(a, Ptr):
            if a.obj is None:
                return A.binop(st, op, a.off, b, bits)
            if op == 'add': return Ptr(a.obj, A.off_add(st, a.off, b, bits, 1))
            if op == 'sub':
                if isinstance(b, int): return Ptr(a.obj, A.off_add(st, a.off, (-b) & MASK(bits), bits, 1))
                return Ptr(a.obj, A.off_add(st, a.off, A.binop(st, 'sub', 0, b, bits), bits, 1))
            raise Inconclusive(f'pointer {op} int')
        if b.obj is None:
            return A.binop(st, op, a, b.off, bits)
        if op == 'add': return Ptr(b.obj, A.off_add(st, b.off, a, bits, 1))
        raise Inconclusive(f'int {op} pointer')

    def icmp(s, st, pred, a, b, t):
        A = s.A
        if t.k == 'vector':
            return Agg([s.icmp(st, pred, x, y, s.L.res(t.elem)) for x, y in zip(a.e, b.e)])
        if t.k == 'ptr' or isinstance(a, Ptr) or isinstance(b, Ptr):
            if not isinstance(a, Ptr): a = Ptr(None, a)
            if not isinstance(b, Ptr): b = Ptr(None, b)
            if a.obj != b.obj:
                # distinct objects never compare equal; null vs object
                if pred == 'eq': return 0
                if pred == 'ne': return 1
                raise Inconclusive('ordered comparison of pointers into different objects')
            if A.name == 'BITS':
                return A.icmp(st, pred, a.off, b.off, 64)
            x, y = a.off, b.off
            p = pred if pred in ('eq', 'ne') else pred[1:]
            if isinstance(x, int) and isinstance(y, int):
                return int({'eq': x == y, 'ne': x != y, 'lt': x < y, 'le': x <= y, 'gt': x > y, 'ge': x >= y}[p])
            return simp_bool({'eq': lambda: x == y, 'ne': lambda: x != y, 'lt': lambda: x < y, 'le': lambda: x <= y,
                              'gt': lambda: x > y, 'ge': lambda: x >= y}[p]())
        bits = t.bits
        if bits == 1:
            if pred == 'eq': return bool_not(bool_xor(a, b))
            if pred == 'ne': return bool_xor(a, b)
            raise Inconclusive('ordered i1 comparison')
        if isinstance(a, Bundle) or isinstance(b, Bundle):
            raise Inconclusive('INT mode: comparison of a bundled wide load')
        return A.icmp(st, pred, a, b, bits)

    def intcast(s, st, op, v, fb, nb):
        A = s.A
        if isinstance(v, Ptr):
            if op == 'trunc': raise Inconclusive('truncation of a pointer')
            return v
        if fb == 1:
            return A.b2i(v, nb, signed=(op == 'sext'))
        if nb == 1:
            return A.i2b(st, v, fb)
        if isinstance(v, Bundle):
            if op == 'trunc':
                for ro, sz, x in v.parts:
                    if ro == 0 and sz * 8 == nb:
                        return x
            raise Inconclusive('INT mode: cast of a bundled wide load')
        return getattr(A, op)(st, v, fb, nb)

    def bitcast(s, st, v, ft, tt):
        """non-pointer bitcast between same-size first-class types"""
        A = s.A
        fs, _ = s.L.size_align(ft); ts, _ = s.L.size_align(tt)
        if fs != ts: raise Inconclusive('bitcast size mismatch')
        if A.name == 'BITS':
            if ft.k in ('int', 'float', 'double') and tt.k in ('int', 'float', 'double'):
                return v
            # vector <-> scalar / vector <-> vector via bytes
            bs = s.flatten_bytes(v, ft)
            return s.unflatten_bytes(bs, tt)
        # clang coerces small float aggregates into integer/double registers: keep the pieces as a bundle
        if ft.k == 'vector' and tt.k in ('int', 'double'):
            es, _ = s.L.size_align(ft.elem)
            return Bundle([(i * es, es, x) for i, x in enumerate(v.e)], fs)
        if isinstance(v, Bundle) and tt.k == 'vector':
            es, _ = s.L.size_align(tt.elem)
            if [(ro, sz) for ro, sz, _ in v.parts] == [(i * es, es) for i in range(tt.n)]:
                return Agg([x for _, _, x in v.parts])
            raise Inconclusive('INT mode: bundle does not match the vector it is cast to')
        if isinstance(v, Bundle):
            return v
        if ft.k == 'int' and tt.k in ('float', 'double') and (isinstance(v, Fraction) or (z3.is_expr(v) and v.sort().kind() == z3.Z3_REAL_SORT)):
            return v      # a float that travelled through an integer register (piece of a bundle)
        if ft.k == 'int' and tt.k in ('float', 'double') and isinstance(v, IntV) and v.lazy is not None:
            return s.conv_loaded(st, v, tt.k, 0)      # untyped read of a symbolic buffer, now typed as a real
        if ft.k in ('float', 'double') and tt.k == 'int':
            return v      # stays a real; only storing/bundling is possible with it
        if ft.k in ('float', 'double') or tt.k in ('float', 'double'):
            raise Inconclusive('REAL mode: bitcast between integer and floating point')
        if ft.k == 'vector' and tt.k == 'vector' and s.L.res(ft.elem) == s.L.res(tt.elem):
            return v
        raise Inconclusive(f'bitcast {ft} -> {tt} in INT mode')

    def flatten_bytes(s, v, t):
        t = s.L.res(t)
        if t.k in ('vector', 'array'):
            out = []
            for x in v.e: out += s.flatten_bytes(x, t.elem)
            return out
        sz, _ = s.L.size_align(t)
        return s.A.to_bytes(v, sz)

    def unflatten_bytes(s, bs, t):
        t = s.L.res(t)
        if t.k in ('vector', 'array'):
            es, _ = s.L.size_align(t.elem)
            return Agg([s.unflatten_bytes(bs[i * es:(i + 1) * es], t.elem) for i in range(t.n)])
        return s.A.from_bytes(bs)

    def select(s, st, c, a, b, t):
        if t.k in ('struct', 'array', 'vector'):
            if isinstance(c, Agg):
                return Agg([s.select(st, ci, x, y, s.L.res(t.elem)) if not isinstance(ci, int) else (x if ci else y)
                            for ci, x, y in zip(c.e, a.e, b.e)])
            fts = t.fields if t.k == 'struct' else [t.elem] * t.n
            return Agg([s.select(st, c, x, y, s.L.res(ft)) for x, y, ft in zip(a.e, b.e, fts)])
        tk, bits = s.scalar_kind(t)
        return s.ite_val(st, c, a, b, tk, bits)

    def insertvalue(s, v, idx, x):
        n = Agg(v.e)
        if len(idx) == 1:
            n.e[idx[0]] = x
        else:
            n.e[idx[0]] = s.insertvalue(v.e[idx[0]], idx[1:], x)
        return n

    def do_switch(s, st, stack, work, ins):
        fr = stack[-1]
        v = s.val(st, fr, ins.ops[0])
        bits = s.L.res(ins.ops[0].ty).bits
        if isinstance(v, int):
            for cv, l in ins.ops[2]:
                if s.val(st, fr, cv) == v:
                    s.goto(fr, l); return
            s.goto(fr, ins.ops[1]); return
        conds = []
        for cv, l in ins.ops[2]:
            conds.append((s.A.icmp(st, 'eq', v, s.val(st, fr, cv), bits), l))
        conds.append((simp_bool(z3.And([z3.Not(zbool(c)) for c, _ in conds])), ins.ops[1]))
        feas = []
        for c, l in conds:
            if isinstance(c, int):
                if c: feas.append((c, l))
                continue
            r = s.check(st, c)
            if r == 'unknown': raise Inconclusive('solver unknown on switch')
            if r == 'sat': feas.append((c, l))
        if not feas:
            raise PathEnd()
        if len(feas) > 1:
            t = s.A.term(st, v, bits)
            dep = s.undef_dependence(st, t == z3.Const('switch!probe', t.sort())) if s.undef_vars(t) else None
            if s.undef_vars(t):
                # the chosen case depends on the undef symbols iff some case condition does
                for c, _ in feas:
                    if not isinstance(c, int) and s.undef_dependence(st, c):
                        s.fail(st, 'UNINIT-DECISION', f'switch in {fr.f.name} depends on uninitialised data', stack=stack)
                        break
        for c, l in feas[1:]:
            st2, stack2 = s.fork(st, stack)
            if not isinstance(c, int): st2.pc.append(c)
            work.append((st2, stack2))
            s.goto(stack2[-1], l)
        c, l = feas[0]
        if not isinstance(c, int): st.pc.append(c)
        s.goto(fr, l)

    def do_call(s, st, stack, work, ins):
        fr = stack[-1]
        callee = ins.ops[0]
        if callee.k == 'global':
            name = callee.v
        elif callee.k == 'cexpr' and callee.v == 'bitcast' and callee.ops[0].k == 'global':
            name = callee.ops[0].v
        else:
            fp = s.val(st, fr, callee)
            if not (isinstance(fp, Ptr) and fp.obj is not None and fp.obj[0] == 'g' and s.A.off_conc(fp.off) == 0):
                if isinstance(fp, Ptr) and fp.obj is None:
                    s.fail(st, 'NULL-CALL', f'indirect call through {fp} in {fr.f.name}', stack=stack)
                    raise PathEnd()
                raise Inconclusive(f'indirect call through {fp}')
            name = fp.obj[1]
            if st.foot is not None: st.foot['indirect_calls'].add(name)
        if name.startswith('@llvm.'):
            if (name.startswith('@llvm.dbg') or name.startswith('@llvm.experimental.noalias')
                    or name.startswith('@llvm.invariant') or name.startswith('@llvm.prefetch')
                    or name.startswith('@llvm.stacksave') or name.startswith('@llvm.stackrestore')):
                if ins.res: fr.loc[ins.res] = Ptr(None, 0)
                return
        args = [s.val(st, fr, a) for a in ins.ops[1:]]
        f = s.mod.funcs.get(name)
        if f is not None:
            if len(stack) > s.cfg.depth_cap:
                raise Inconclusive('call depth cap')
            # byval arguments: the callee gets a private copy
            for i, at in enumerate(ins.extra['aattrs']):
                if 'byval' in at and at['byval'] is not None:
                    sz, _ = s.L.size_align(at['byval'])
                    oid = s.alloc(st, sz, 'stack')
                    s.copy_range(st, Ptr(oid, 0), args[i], sz, 'byval copy', stack)
                    args[i] = Ptr(oid, 0)
            fr.calling = ins
            nf = Frame(f, args)
            for i, at in enumerate(ins.extra['aattrs']):
                if 'byval' in at and at['byval'] is not None:
                    nf.allocas.append(args[i].obj)
            stack.append(nf)
            s.funcs_entered.add(name)
            return
        s.externals_used.add(name)
        r = s.models.call(st, stack, work, name, args, ins)
        if r is RAISED:
            return
        if ins.res:
            fr.loc[ins.res] = r
        if ins.op == 'invoke':
            s.goto(fr, ins.extra['normal'])


RAISED = object()
