"""C20: symbolic evaluation of covfie's index-sequence metaprograms. The rewrite rules are extracted on every run from
clang's AST of static_permutation.hpp (-Xclang -ast-dump=json); instantiation with symbolic 64-bit sequence elements forks
on conditional_t; z3 decides the obligations at every leaf (DESIGN.md 3.C20)."""
import json, re, sys, time, itertools
from z3 import *

def load_rules(path):
    txt=open(path).read(); dec=json.JSONDecoder(); i=0; objs=[]
    while i < len(txt):
        while i < len(txt) and txt[i].isspace(): i+=1
        if i>=len(txt): break
        o,j=dec.raw_decode(txt,i); objs.append(o); i=j
    rules={}   # name -> list of dict(params, args, alias|base)
    def visit(n):
        k=n.get('kind')
        if k in('ClassTemplatePartialSpecializationDecl','ClassTemplateSpecializationDecl') or k=='ClassTemplateDecl':
            name=n['name']; r={'primary':k=='ClassTemplateDecl'}
            inner=n.get('inner',[])
            r['params']=[(c.get('name'),c.get('isParameterPack',False)) for c in inner if c.get('kind') in('NonTypeTemplateParmDecl','TemplateTypeParmDecl')]
            r['args']=[c['type']['qualType'] for c in inner if c.get('kind')=='TemplateArgument']
            rec=n
            if k=='ClassTemplateDecl':
                rec=[c for c in inner if c.get('kind')=='CXXRecordDecl'][0]
            r['bases']=[b['type']['qualType'] for b in rec.get('bases',[])]
            al=[c for c in rec.get('inner',[]) if c.get('kind')=='TypeAliasDecl' and c.get('name')=='type']
            r['alias']=al[0]['type']['qualType'] if al else None
            # other member aliases of the record (helper names the `type` alias may refer to)
            r['aliases']={c['name']:c['type']['qualType'] for c in rec.get('inner',[]) if c.get('kind')=='TypeAliasDecl' and c.get('name')!='type'}
            # static constexpr data members with an initialiser (helper constants the aliases may refer to)
            r['members']={c['name']:c for c in rec.get('inner',[]) if c.get('kind')=='VarDecl' and c.get('name') and any(x.get('kind','').endswith(('Expr','Operator','Literal','Cleanups')) for x in c.get('inner',[]))}
            rules.setdefault(name,[]).append(r)
            if k=='ClassTemplateDecl':
                for c in inner:
                    if c.get('kind')=='ClassTemplateSpecializationDecl' and c.get('inner') and not any(x.get('kind')=='TemplateArgument' and 'Idx' in json.dumps(x) for x in []):
                        pass
                return
        for c in n.get('inner',[]): visit(c)
    for o in objs: visit(o)
    # explicit full specialisations appear as ClassTemplateSpecializationDecl at namespace level: handled by visit
    funcs={}
    def fvisit(n):
        if n.get('kind')=='FunctionDecl' and n.get('name') and any(c.get('kind')=='CompoundStmt' for c in n.get('inner',[])):
            funcs[n['name']]=n
        for c in n.get('inner',[]): fvisit(c)
    for o in objs: fvisit(o)
    rules['__functions__']=funcs
    # variable templates (constexpr bool/size_t ... = expr;) from clang's pretty printer, if the driver produced it
    vart={}
    pp=path+'.print'
    import os
    if os.path.exists(pp):
        for m in re.finditer(r'template <([^>]*)>\s*(?:inline\s+)?(?:static\s+)?constexpr\s+([\w:]+(?:\s+\w+)*?)\s+(\w+)\s*=\s*(.*);\s*$', open(pp).read(), re.M):
            params=[]
            for prm in m.group(1).split(','):
                prm=prm.strip()
                if not prm: continue
                pack='...' in prm
                params.append((prm.replace('...',' ').split()[-1],pack))
            vart[m.group(3)]={'params':params,'type':m.group(2).strip(),'init':m.group(4).strip()}
    rules['__vartemplates__']=vart
    return rules

TOK=re.compile(r'\s*(?:(?P<op> (?:<=|>=|==|!=|<|>) )|(?P<id>[A-Za-z_][\w]*(?:::[A-Za-z_][\w]*)*)|(?P<num>\d+)|(?P<dots>\.\.\.)|(?P<p>[<>,()]))')
def tokenize(s):
    out=[]; i=0
    while i < len(s):
        m=re.compile(r'(?P<op> (?:<=|>=|==|!=|<|>|&&|\|\||\+|-|\*|/|%) )|\s+|(?P<sizeof>sizeof\.\.\.)|(?P<id>[A-Za-z_]\w*(?:::[A-Za-z_]\w*)*)|(?P<num>\d+)(?:[uU]?[lL]{0,2})|(?P<dots>\.\.\.)|(?P<p>::|[<>,()!])').match(s,i)
        if not m: raise SyntaxError(s[i:i+30])
        i=m.end()
        for k in ('op','sizeof','id','num','dots','p'):
            if m.group(k): out.append((k,m.group(k).strip())); break
    return out
class P:
    def __init__(s,toks): s.t=toks; s.i=0
    def peek(s): return s.t[s.i] if s.i < len(s.t) else ('eof','')
    def next(s): x=s.peek(); s.i+=1; return x
    PREC={'||':1,'&&':2,'==':3,'!=':3,'<':4,'>':4,'<=':4,'>=':4,'+':5,'-':5,'*':6,'/':6,'%':6}
    def expr(s,minp=0):   # template-argument expression / type; precedence climbing over the spaced operators
        lhs=s.primary()
        while s.peek()[0]=='op' and s.PREC[s.peek()[1]]>=minp:
            # a fold "(pattern op ...)" ends here: leave the operator for the fold parser
            if s.i+1 < len(s.t) and s.t[s.i+1][0]=='dots' and s.i+2 < len(s.t) and s.t[s.i+2]==('p',')'): break
            op=s.next()[1]; rhs=s.expr(s.PREC[op]+1); lhs=('bin',op,lhs,rhs)
        if s.peek()[0]=='dots' and minp==0 and not (s.i+1 < len(s.t) and s.t[s.i+1][0]=='op'): s.next(); lhs=('expand',lhs)
        return lhs
    def primary(s):
        k,v=s.next()
        if (k,v)==('p','('):
            if s.peek()[0]=='dots':      # left fold ( ... op pattern )
                s.next(); op=s.next()[1]; e=s.expr(); assert s.next()==('p',')'); return ('fold',op,e)
            e=s.expr()
            if s.peek()[0]=='op' and s.i+1 < len(s.t) and s.t[s.i+1][0]=='dots':      # right fold ( pattern op ... )
                op=s.next()[1]; s.next(); assert s.next()==('p',')'); return ('fold',op,e)
            assert s.next()==('p',')'); return e
        if k=='sizeof':
            assert s.next()==('p','('); nm=s.next()[1]; assert s.next()==('p',')'); return ('packsize',nm)
        if (k,v)==('p','!'):
            return ('not',s.primary())
        if k=='num': return ('num',int(v))
        if k=='id' and v in('typename','unsigned','long','const'):
            if v=='typename':
                t=s.primary(); return t
            # builtin type words
            while s.peek()[1] in('long','unsigned','int'): s.next()
            return ('ty','ulong')
        if k=='id':
            name=v; node=('name',name)
            if s.peek()==('p','(') and name not in('typename',):
                s.next(); args=[]
                if s.peek()!=('p',')'):
                    while True:
                        args.append(s.expr())
                        if s.peek()==('p',','): s.next(); continue
                        break
                assert s.next()==('p',')'), 'expected )'
                return ('call',name,args)
            if s.peek()==('p','<'):
                s.next(); args=[]
                if s.peek()!=('p','>'):
                    while True:
                        args.append(s.expr())
                        if s.peek()==('p',','): s.next(); continue
                        break
                assert s.next()==('p','>'), 'expected >'
                node=('tmpl',name,args)
            if s.peek()==('p','::'):
                s.next(); m=s.next()[1]; node=('member',node,m)
            return node
        raise SyntaxError(f'primary {k} {v}')
def parse(sx): 
    p=P(tokenize(sx)); e=p.expr(); assert p.peek()[0]=='eof', f'trailing {p.peek()} in {sx}'; return e

class Ev:
    def __init__(s,rules):
        s.rules=rules; s.solver=Solver(); s.nq=0
    def feasible(s,pc):
        s.nq+=1; s.solver.push(); s.solver.add(*pc); r=s.solver.check(); s.solver.pop(); return r==sat
    def norm(s,name): return name.split('::')[-1]
    # values: ('seq',[terms]) | ('ic',term) | ('bool',pyBool)
    def ev(s,node,env,pc):
        """returns list of (pc, value)"""
        k=node[0]
        if k=='tmpl':
            nm=s.norm(node[1])
            if nm in('index_sequence','integer_sequence'):
                elems=[]
                for a in node[2]:
                    if a==('ty','ulong') or a==('name','std::size_t') or a==('name','size_t'): continue
                    if a[0]=='expand': elems+=env[a[1][1]]
                    else: elems.append(s.elem(a,env))
                return [(pc,('seq',elems))]
            if nm=='bool_constant': return [(pc,('bool',s.cond(node[2][0],env)))]
            if nm=='integral_constant' and node[2][0]==('name','bool'): return [(pc,('bool',s.cond(node[2][1],env)))]
            if nm=='integral_constant': return [(pc,('ic',s.elem(node[2][1],env)))]
            if nm=='conditional_t':
                c=s.cond(node[2][0],env); out=[]
                for cond,br in ((c,node[2][1]),(Not(c),node[2][2])):
                    pc2=pc+[cond]
                    if s.feasible(pc2): out+=s.ev(br,env,pc2)
                return out
            if nm=='is_same':
                out=[]
                for pc1,a in s.ev(node[2][0],env,pc):
                    for pc2,b in s.ev(node[2][1],env,pc1):
                        if len(a[1])!=len(b[1]): out.append((pc2,('bool',BoolVal(False))))
                        else: out.append((pc2,('bool',And([x==y for x,y in zip(a[1],b[1])]) if a[1] else BoolVal(True))))
                return out
            raise Exception('bare template use '+nm)
        if k=='member':
            assert node[2]=='type'
            t=node[1]; nm=s.norm(t[1])
            if nm in('index_sequence','integer_sequence','integral_constant','conditional_t'): return s.ev(t,env,pc)
            # evaluate args, then apply user template
            alts=[(pc,[])]
            for a in t[2]:
                alts=[(pc2,vals+[v]) for pc1,vals in alts for pc2,v in s.ev(a,env,pc1)]
            out=[]
            for pc1,vals in alts: out+=s.apply(nm,vals,pc1)
            return out
        if k=='name':
            al=env.get('@aliases') or {}
            if node[1] in al: return s.ev(parse(al[node[1]]),env,pc)
            if s.norm(node[1])=='false_type': return [(pc,('bool',BoolVal(False)))]
            if s.norm(node[1])=='true_type': return [(pc,('bool',BoolVal(True)))]
        raise Exception(f'ev {node}')
    # ---- typed scalars: (term, bits, signed) ; comparisons / logic give z3 Bools
    TYPES={'int':(32,True),'unsigned int':(32,False),'unsigned':(32,False),'long':(64,True),'unsigned long':(64,False),
           'std::size_t':(64,False),'size_t':(64,False),'long long':(64,True),'unsigned long long':(64,False),'bool':(1,False),
           'char':(8,True),'signed char':(8,True),'unsigned char':(8,False),'short':(16,True),'unsigned short':(16,False),
           'std::ptrdiff_t':(64,True),'ptrdiff_t':(64,True),'std::int32_t':(32,True),'std::uint32_t':(32,False),
           'std::int64_t':(64,True),'std::uint64_t':(64,False),'int32_t':(32,True),'uint32_t':(32,False),'int64_t':(64,True),'uint64_t':(64,False)}
    def ty(s,q):
        q=q.replace('const ','').strip()
        if q not in s.TYPES: raise Exception('unsupported scalar type '+q)
        return s.TYPES[q]
    def conv(s,v,bits,signed):
        if isinstance(v,BoolRef): v=(If(v,BitVecVal(1,32),BitVecVal(0,32)),32,True)
        t,b,sg=v
        if bits==1: return (If(t!=0,BitVecVal(1,1),BitVecVal(0,1)),1,False)
        if b==bits: return (t,bits,signed)
        if b>bits: return (Extract(bits-1,0,t),bits,signed)
        return ((SignExt(bits-b,t) if sg else ZeroExt(bits-b,t)),bits,signed)
    def promote(s,v):
        if isinstance(v,BoolRef): return s.conv(v,32,True)
        if v[1]<32: return s.conv(v,32,True)
        return v
    def common(s,a,b):
        a,b=s.promote(a),s.promote(b)
        if a[1]==b[1]: sg=a[2] and b[2]; return (a[0],a[1],sg),(b[0],b[1],sg)
        w=max(a[1],b[1]); wide=a if a[1]==w else b
        return s.conv(a,w,wide[2]),s.conv(b,w,wide[2])
    def truth(s,v):
        if isinstance(v,BoolRef): return v
        return v[0]!=0
    def binop(s,op,a,b):
        if op in('&&','||'):
            x,y=s.truth(a),s.truth(b); return And(x,y) if op=='&&' else Or(x,y)
        a,b=s.common(a,b); x,y,sg=a[0],b[0],a[2]
        if op in('<','>','<=','>=','==','!='):
            if sg: return {'<':x<y,'>':x>y,'<=':x<=y,'>=':x>=y,'==':x==y,'!=':x!=y}[op]
            return {'<':ULT(x,y),'>':UGT(x,y),'<=':ULE(x,y),'>=':UGE(x,y),'==':x==y,'!=':x!=y}[op]
        r={'+':lambda:x+y,'-':lambda:x-y,'*':lambda:x*y,'/':lambda:(x/y if sg else UDiv(x,y)),'%':lambda:(SRem(x,y) if sg else URem(x,y)),
           '&':lambda:x&y,'|':lambda:x|y,'^':lambda:x^y,'<<':lambda:x<<y,'>>':lambda:(x>>y if sg else LShR(x,y))}[op]()
        return (r,a[1],sg)
    def scalar(s,node,env):
        """value of a template-argument expression; sequence elements are converted to size_t by the caller (elem)"""
        k=node[0]
        if k=='num': return (BitVecVal(node[1],32),32,True) if node[1] < 2**31 else (BitVecVal(node[1],64),64,False)
        if k=='name':
            v=s.lookup(node[1],env)
            return v if isinstance(v,(tuple,BoolRef)) else (v,64,False)
        if k=='not': return Not(s.truth(s.scalar(node[1],env)))
        if k=='bin': return s.binop(node[1],s.scalar(node[2],env),s.scalar(node[3],env))
        if k=='packsize': return (BitVecVal(len(env[node[1]]),64),64,False)
        if k=='fold':
            packs=sorted(s.packs_in(node[2],env))
            if not packs: raise Exception('fold expression without a parameter pack')
            n=len(env[packs[0]])
            if any(len(env[q])!=n for q in packs): raise Exception('fold over packs of different lengths')
            vals=[]
            for i in range(n):
                e2=dict(env)
                for q in packs: e2[q]=env[q][i]
                vals.append(s.scalar(node[2],e2))
            op=node[1]
            if op=='&&': return And([s.truth(v) for v in vals]) if vals else BoolVal(True)
            if op=='||': return Or([s.truth(v) for v in vals]) if vals else BoolVal(False)
            if not vals: raise Exception('empty fold over '+op)
            r=vals[0]
            for v in vals[1:]: r=s.binop(op,r,v)
            return r
        if k=='tmpl':
            vt=s.rules['__vartemplates__'].get(s.norm(node[1]))
            if vt is None: raise Exception('template-id used as a value: '+node[1])
            flat=[]
            for a in node[2]:
                if a[0]=='expand':
                    lst=env[a[1][1]]
                    if not isinstance(lst,list): raise Exception('expansion of a non-pack')
                    flat+=[(x,64,False) if not isinstance(x,(tuple,BoolRef)) else x for x in lst]
                else: flat.append(s.scalar(a,env))
            e2={}; i=0
            for nm,pack in vt['params']:
                if pack: e2[nm]=[s.conv(v,64,False)[0] for v in flat[i:]]; i=len(flat)
                else:
                    if i>=len(flat): raise Exception('too few arguments for '+node[1])
                    e2[nm]=flat[i]; i+=1
            if i!=len(flat): raise Exception('too many arguments for '+node[1])
            r=s.scalar(parse(vt['init']),e2)
            if vt['type'].replace('const ','').strip()=='bool': return s.truth(r)
            b,sg=s.ty(vt['type']); return s.conv(r,b,sg)
        if k=='call':
            fn=s.rules['__functions__'].get(s.norm(node[1]))
            if fn is None and s.norm(node[1]) in('min','max'): return s.minmax(s.norm(node[1]),[s.scalar(a,env) for a in node[2]])
            if fn is None: raise Exception('call to unknown function '+node[1])
            return s.call(fn,[s.scalar(a,env) for a in node[2]])
        raise Exception(f'scalar {node}')
    def lookup(s,name,env):
        """template parameter, or a static constexpr data member of the specialisation being applied (evaluated on demand)"""
        if name in env: return env[name]
        m=(env.get('@members') or {}).get(name.split('::')[-1])
        if m is None: raise KeyError(name)
        init=[x for x in m['inner'] if x.get('kind','').endswith(('Expr','Operator','Literal','Cleanups'))][0]
        v=s.jexpr(init,env)
        q=m['type']['qualType'].replace('const ','').strip()
        if q=='bool': return s.truth(v)
        b,sg=s.ty(q); return s.conv(v,b,sg)
    def minmax(s,which,vals):
        """std::min / std::max over typed scalars (first of equals, as the standard says; the values are what matters here)"""
        if not vals: raise Exception('std::'+which+' of nothing')
        r=vals[0]
        for v in vals[1:]:
            a,b=s.common(r,v)
            lt=(a[0]<b[0]) if a[2] else ULT(a[0],b[0])
            r=(If(lt,a[0],b[0]),a[1],a[2]) if which=='min' else (If(lt,b[0],a[0]),a[1],a[2])
        return r
    def packs_in(s,node,env,acc=None):
        acc=set() if acc is None else acc
        if node[0]=='name':
            if isinstance(env.get(node[1]),list): acc.add(node[1])
        elif node[0]=='tmpl':
            for a in node[2]:
                if a[0]!='expand': s.packs_in(a,env,acc)
        elif node[0] in('bin',): s.packs_in(node[2],env,acc); s.packs_in(node[3],env,acc)
        elif node[0] in('not',): s.packs_in(node[1],env,acc)
        elif node[0]=='call':
            for a in node[2]: s.packs_in(a,env,acc)
        return acc
    def elem(s,node,env):
        v=s.scalar(node,env)
        return s.conv(v,64,False)[0]
    def cond(s,node,env):
        return s.truth(s.scalar(node,env))
    # ---- constexpr functions: evaluated on clang's typed AST
    def call(s,fn,args):
        params=[c for c in fn.get('inner',[]) if c.get('kind')=='ParmVarDecl']
        if len(params)!=len(args): raise Exception('arity of '+fn['name'])
        env={}
        for p,a in zip(params,args):
            b,sg=s.ty(p['type']['qualType']); env[p['name']]=s.conv(a,b,sg)
        body=[c for c in fn['inner'] if c.get('kind')=='CompoundStmt'][0]
        r=s.stmts(body.get('inner',[]),env)
        if r is None: raise Exception('function without return: '+fn['name'])
        b,sg=s.ty(fn['type']['qualType'].split('(')[0].strip())
        return s.conv(r,b,sg) if b!=1 else s.truth(r)
    def stmts(s,lst,env):
        for i,st in enumerate(lst):
            k=st.get('kind')
            if k=='ReturnStmt': return s.jexpr(st['inner'][0],env)
            if k=='IfStmt':
                inner=st['inner']; c=s.truth(s.jexpr(inner[0],env))
                th=s.stmts([inner[1]] if inner[1].get('kind')!='CompoundStmt' else inner[1].get('inner',[]),env)
                if len(inner)>2:
                    el=s.stmts([inner[2]] if inner[2].get('kind')!='CompoundStmt' else inner[2].get('inner',[]),env)
                else:
                    el=s.stmts(lst[i+1:],env)
                if th is None or el is None: raise Exception('if without return on a branch')
                if isinstance(th,BoolRef) or isinstance(el,BoolRef): return If(c,s.truth(th),s.truth(el))
                a,b=s.common(th,el); return (If(c,a[0],b[0]),a[1],a[2])
            if k=='CompoundStmt':
                r=s.stmts(st.get('inner',[]),env)
                if r is not None: return r
                continue
            if k in('NullStmt',): continue
            raise Exception('unsupported statement '+str(k))
        return None
    def jexpr(s,n,env):
        k=n.get('kind')
        if k in('ParenExpr','ConstantExpr','ExprWithCleanups'): return s.jexpr(n['inner'][0],env)
        if k=='IntegerLiteral':
            b,sg=s.ty(n['type']['qualType']); return (BitVecVal(int(n['value']),b),b,sg)
        if k=='CXXBoolLiteralExpr': return BoolVal(bool(n.get('value')))
        if k=='DeclRefExpr':
            v=s.lookup(n['referencedDecl']['name'],env)
            return v if isinstance(v,(tuple,BoolRef)) else (v,64,False)
        if k in('MaterializeTemporaryExpr','CXXBindTemporaryExpr'): return s.jexpr(n['inner'][0],env)
        if k in('ImplicitCastExpr','CXXStaticCastExpr','CStyleCastExpr','CXXFunctionalCastExpr'):
            v=s.jexpr(n['inner'][0],env); ck=n.get('castKind')
            if ck in('LValueToRValue','NoOp','FunctionToPointerDecay'): return v
            if ck in('IntegralCast','IntegralToBoolean'):
                b,sg=s.ty(n['type']['qualType'])
                return s.truth(v) if b==1 else s.conv(v,b,sg)
            raise Exception('unsupported cast '+str(ck))
        if k=='BinaryOperator': return s.binop(n['opcode'],s.jexpr(n['inner'][0],env),s.jexpr(n['inner'][1],env))
        if k=='UnaryOperator':
            v=s.jexpr(n['inner'][0],env); op=n['opcode']
            if op=='!': return Not(s.truth(v))
            v=s.promote(v)
            if op=='-': return (-v[0],v[1],v[2])
            if op=='~': return (~v[0],v[1],v[2])
            if op=='+': return v
            raise Exception('unsupported unary '+op)
        if k=='ConditionalOperator':
            c=s.truth(s.jexpr(n['inner'][0],env)); a=s.jexpr(n['inner'][1],env); b=s.jexpr(n['inner'][2],env)
            if isinstance(a,BoolRef) or isinstance(b,BoolRef): return If(c,s.truth(a),s.truth(b))
            a,b=s.common(a,b); return (If(c,a[0],b[0]),a[1],a[2])
        if k=='CallExpr':
            callee=n['inner'][0]
            while callee.get('kind') in('ImplicitCastExpr','ParenExpr'): callee=callee['inner'][0]
            cname=callee['referencedDecl']['name']
            fn=s.rules['__functions__'].get(cname)
            if fn is None and cname in('min','max'):
                args=[]
                for a in n['inner'][1:]:
                    while a.get('kind') in('CXXStdInitializerListExpr','MaterializeTemporaryExpr','CXXBindTemporaryExpr','ExprWithCleanups'): a=a['inner'][0]
                    if a.get('kind')=='InitListExpr': args+=[s.jexpr(x,env) for x in a.get('inner',[])]
                    else: args.append(s.jexpr(a,env))
                return s.minmax(cname,args)
            if fn is None: raise Exception('call to unknown function')
            return s.call(fn,[s.jexpr(a,env) for a in n['inner'][1:]])
        raise Exception('unsupported expression '+str(k))
    def match(s,rule,vals):
        """structural match of specialisation patterns against values -> env or None"""
        if rule['primary']: return None
        env={}; names=[n for n,_ in rule['params']]; packs={n:p for n,p in rule['params']}; order=iter(rule['params'])
        bound=[]
        def bind(is_pack,val):
            try: n,p=next(order)
            except StopIteration: raise Exception('more pattern holes than parameters')
            if p!=is_pack: raise Exception('pattern/parameter kind mismatch')
            env[n]=val
        for pat,val in zip(rule['args'],vals):
            pt=parse(pat); nm=s.norm(pt[1]) if pt[0]=='tmpl' else None
            if nm in('integer_sequence','index_sequence'):
                if val[0]!='seq': return None
                holes=[a for a in pt[2] if not (a==('ty','ulong') or a[0]=='name' and s.norm(a[1])=='size_t')]
                seq=val[1]; nfixed=sum(1 for h in holes if h[0]!='expand')
                if any(h[0]=='expand' for h in holes):
                    if len(seq)<nfixed: return None
                else:
                    if len(seq)!=nfixed: return None
                i=0
                for h in holes:
                    if h[0]=='expand': bind(True,seq[i:]); i=len(seq)
                    else: bind(False,seq[i]); i+=1
            elif nm=='integral_constant':
                if val[0]!='ic': return None
                # a parameter may be repeated across patterns (N): bind once
                hole=pt[2][1]
                if hole[0]=='name' and hole[1] in env: 
                    pass
                else: bind(False,val[1])
            else: raise Exception('unsupported pattern '+pat)
        return env
    def apply(s,name,vals,pc):
        cands=[]
        for r in s.rules[name]:
            if r['primary']: continue
            if len(r['args'])!=len(vals): continue
            env=s.match(r,vals)
            if env is not None: cands.append((r,env))
        if not cands:
            prim=[r for r in s.rules[name] if r['primary']][0]
            if prim['bases']: return s.ev(parse(prim['bases'][0]),{},pc)
            raise Exception(f'no specialisation of {name} matches {vals}')
        # most specialised: prefer the one with more non-pack params / fewer elements in packs (sufficient for these headers)
        cands.sort(key=lambda re: -sum(1 for _,p in re[0]['params'] if not p))
        r,env=cands[0]
        if r.get('aliases'): env=dict(env); env['@aliases']=r['aliases']
        if r.get('members'): env=dict(env); env['@members']=r['members']
        if r['alias']: return s.ev(parse(r['alias']),env,pc)
        return s.ev(parse(r['bases'][0]),env,pc)



def mval(m, t):
    return m.eval(t, model_completion=True).as_long()


def run_unit(ast_json, kind, a, b):
    """returns a result dict in the shape of runh.summarize"""
    t0 = time.time()
    res = {'failures': [], 'inconclusive': [], 'paths': 0, 'instrs': 0, 'queries': {'sat': 0, 'unsat': 0, 'unknown': 0},
           'asserts': {}, 'functions': [], 'externals': [], 'traces': [], 'n_failures': 0, 'cuts': 0, 'fp_ops': {}}
    try:
        rules = load_rules(ast_json)
        need = ['concat_index_sequence', 'filter_index_sequence_lt', 'filter_index_sequence_geq', 'sort_index_sequence', 'is_permutation']
        for n in need:
            if n not in rules:
                raise Exception(f'rule extractor: template {n} not found in the AST')
            for r in rules[n]:
                if not r['primary'] and r['alias'] is None and not r['bases']:
                    raise Exception(f'rule extractor: a specialisation of {n} has neither a type alias nor a base class')
        res['functions'] = sorted(f'{n}[{len(rules[n])} rules]' for n in need)
        ev = Ev(rules); S = Solver(); S.set('timeout', 120000)
        def q(pc, extra):
            S.push(); S.add(*pc); S.add(extra); r = S.check(); m = S.model() if r == sat else None; S.pop()
            res['queries']['sat' if r == sat else 'unsat' if r == unsat else 'unknown'] += 1
            return r, m
        if kind == 'sort':
            L = a
            xs = [BitVec(f'x{i}', 64) for i in range(L)]
            leaves = ev.apply('sort_index_sequence', [('seq', xs)], [])
            res['paths'] = len(leaves)
            site = {'reached': len(leaves), 'proved': 0, 'failed': 0, 'unknown': 0, 'witness': None}
            # the leaves' path conditions must cover every input (no input falls through the specialisations)
            r, m = q([], And([Not(And(*pc)) if pc else BoolVal(False) for pc, _ in leaves]) if leaves else BoolVal(True))
            if r != unsat:
                res['inconclusive'].append('leaf path conditions do not cover all inputs')
            for pc, (k, out) in leaves:
                bad = None
                ids = sorted(str(o) for o in out)
                if ids != sorted(str(x) for x in xs):
                    r, m = q(pc, BoolVal(True)); bad = ('output is not a rearrangement of the input', m)
                elif len(out) > 1:
                    r, m = q(pc, Or([UGT(out[i], out[i + 1]) for i in range(len(out) - 1)]))
                    if r == sat: bad = ('output not ascending', m)
                    elif r != unsat: res['inconclusive'].append('solver unknown at a sort leaf'); site['unknown'] += 1
                if bad:
                    site['failed'] += 1
                    vals = [mval(bad[1], x) for x in xs] if bad[1] is not None else [0] * L
                    res['failures'].append({'kind': 'C20-SORT', 'what': f'sort_index_sequence<{vals}>: {bad[0]}', 'site': 1,
                                            'inputs': [{'kind': 'u64', 'name': f'x{i}', 'value': v} for i, v in enumerate(vals)], 'ufs': [],
                                            'where': None})
                else:
                    site['proved'] += 1
                    if site['witness'] is None:
                        r, m = q(pc, BoolVal(True))
                        if m is not None: site['witness'] = {f'x{i}': mval(m, x) for i, x in enumerate(xs)}
            res['asserts']['1'] = site
        else:
            us = [BitVec(f'u{i}', 64) for i in range(a)]; vs = [BitVec(f'v{i}', 64) for i in range(b)]
            leaves = ev.apply('is_permutation', [('seq', us), ('seq', vs)], [])
            res['paths'] = len(leaves)
            site = {'reached': len(leaves), 'proved': 0, 'failed': 0, 'unknown': 0, 'witness': None}
            if a == b:
                oracle = Or([And([us[i] == vs[p[i]] for i in range(a)]) for p in itertools.permutations(range(b))]) if a else BoolVal(True)
            else:
                oracle = BoolVal(False)
            for pc, (k, val) in leaves:
                r, m = q(pc, val != oracle)
                if r == sat:
                    site['failed'] += 1
                    uv = [mval(m, x) for x in us]; vv = [mval(m, x) for x in vs]
                    got = is_true(m.eval(val, model_completion=True))
                    res['failures'].append({'kind': 'C20-PERM', 'what': f'is_permutation<{uv},{vv}> is {got}', 'site': 2,
                                            'inputs': [{'kind': 'u64', 'name': f'u{i}', 'value': v} for i, v in enumerate(uv)] +
                                                      [{'kind': 'u64', 'name': f'v{i}', 'value': v} for i, v in enumerate(vv)],
                                            'ufs': [], 'where': None, 'a': a, 'b': b})
                elif r == unsat:
                    site['proved'] += 1
                    if site['witness'] is None:
                        r2, m2 = q(pc, BoolVal(True))
                        if m2 is not None: site['witness'] = {str(x): mval(m2, x) for x in us + vs}
                else:
                    site['unknown'] += 1; res['inconclusive'].append('solver unknown at an is_permutation leaf')
            res['asserts']['2'] = site
        res['instrs'] = ev.nq + res['paths']
        res['queries']['sat'] += 0
    except Exception as ex:
        res['inconclusive'].append(f'template evaluator: {type(ex).__name__}: {ex}')
    res['n_failures'] = len(res['failures'])
    res['failures'] = res['failures'][:20]
    res['verdict'] = 'fail' if res['failures'] else ('inconclusive' if res['inconclusive'] else 'pass')
    res['wall_s'] = round(time.time() - t0, 2); res['solver_s'] = res['wall_s']
    return res


if __name__ == '__main__':
    # tmpl.py <ast.json> sort L <out.json>  |  tmpl.py <ast.json> perm A B <out.json>
    kind = sys.argv[2]
    if kind == 'sort':
        r = run_unit(sys.argv[1], 'sort', int(sys.argv[3]), 0); out = sys.argv[4]
    else:
        r = run_unit(sys.argv[1], 'perm', int(sys.argv[3]), int(sys.argv[4])); out = sys.argv[5]
    json.dump(r, open(out, 'w'), default=str)
