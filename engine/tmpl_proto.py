"""Prototype: symbolic evaluation of covfie's index-sequence metaprograms from clang's AST (C20)."""
import json, re, sys, time, itertools
from z3 import *

def load_rules(path):
    txt=open(path).read(); dec=json.JSONDecoder(); i=0; objs=[]
    while i < len(txt):
        while i < len(txt) and txt[i].isspace(): i+=1
        if i>=len(txt): break
        o,j=dec.raw_decode(txt,i); objs.append(o); i=j
    rules={}   # name -> list of dict(params, args, alias|base)
    def visit(n):
        k=n.get('kind')
        if k in('ClassTemplatePartialSpecializationDecl','ClassTemplateSpecializationDecl') or k=='ClassTemplateDecl':
            name=n['name']; r={'primary':k=='ClassTemplateDecl'}
            inner=n.get('inner',[])
            r['params']=[(c.get('name'),c.get('isParameterPack',False)) for c in inner if c.get('kind') in('NonTypeTemplateParmDecl','TemplateTypeParmDecl')]
            r['args']=[c['type']['qualType'] for c in inner if c.get('kind')=='TemplateArgument']
            rec=n
            if k=='ClassTemplateDecl':
                rec=[c for c in inner if c.get('kind')=='CXXRecordDecl'][0]
            r['bases']=[b['type']['qualType'] for b in rec.get('bases',[])]
            al=[c for c in rec.get('inner',[]) if c.get('kind')=='TypeAliasDecl' and c.get('name')=='type']
            r['alias']=al[0]['type']['qualType'] if al else None
            rules.setdefault(name,[]).append(r)
            if k=='ClassTemplateDecl':
                for c in inner:
                    if c.get('kind')=='ClassTemplateSpecializationDecl' and c.get('inner') and not any(x.get('kind')=='TemplateArgument' and 'Idx' in json.dumps(x) for x in []):
                        pass
                return
        for c in n.get('inner',[]): visit(c)
    for o in objs: visit(o)
    # explicit full specialisations appear as ClassTemplateSpecializationDecl at namespace level: handled by visit
    return rules

TOK=re.compile(r'\s*(?:(?P<op> (?:<=|>=|==|!=|<|>) )|(?P<id>[A-Za-z_][\w]*(?:::[A-Za-z_][\w]*)*)|(?P<num>\d+)|(?P<dots>\.\.\.)|(?P<p>[<>,()]))')
def tokenize(s):
    out=[]; i=0
    while i < len(s):
        m=re.compile(r'(?P<op> (?:<=|>=|==|!=|<|>) )|\s+|(?P<id>[A-Za-z_]\w*(?:::[A-Za-z_]\w*)*)|(?P<num>\d+)|(?P<dots>\.\.\.)|(?P<p>::|[<>,()])').match(s,i)
        if not m: raise SyntaxError(s[i:i+30])
        i=m.end()
        for k in ('op','id','num','dots','p'):
            if m.group(k): out.append((k,m.group(k).strip())); break
    return out
class P:
    def __init__(s,toks): s.t=toks; s.i=0
    def peek(s): return s.t[s.i] if s.i < len(s.t) else ('eof','')
    def next(s): x=s.peek(); s.i+=1; return x
    def expr(s):   # template-argument expression / type
        lhs=s.primary()
        if s.peek()[0]=='op':
            op=s.next()[1]; rhs=s.primary(); lhs=('bin',op,lhs,rhs)
        if s.peek()[0]=='dots': s.next(); lhs=('expand',lhs)
        return lhs
    def primary(s):
        k,v=s.next()
        if (k,v)==('p','('):
            e=s.expr(); assert s.next()==('p',')'); return e
        if k=='num': return ('num',int(v))
        if k=='id' and v in('typename','unsigned','long','const'):
            if v=='typename':
                t=s.primary(); return t
            # builtin type words
            while s.peek()[1] in('long','unsigned','int'): s.next()
            return ('ty','ulong')
        if k=='id':
            name=v; node=('name',name)
            if s.peek()==('p','<'):
                s.next(); args=[]
                if s.peek()!=('p','>'):
                    while True:
                        args.append(s.expr())
                        if s.peek()==('p',','): s.next(); continue
                        break
                assert s.next()==('p','>'), 'expected >'
                node=('tmpl',name,args)
            if s.peek()==('p','::'):
                s.next(); m=s.next()[1]; node=('member',node,m)
            return node
        raise SyntaxError(f'primary {k} {v}')
def parse(sx): 
    p=P(tokenize(sx)); e=p.expr(); assert p.peek()[0]=='eof', f'trailing {p.peek()} in {sx}'; return e

class Ev:
    def __init__(s,rules):
        s.rules=rules; s.solver=Solver(); s.nq=0
    def feasible(s,pc):
        s.nq+=1; s.solver.push(); s.solver.add(*pc); r=s.solver.check(); s.solver.pop(); return r==sat
    def norm(s,name): return name.split('::')[-1]
    # values: ('seq',[terms]) | ('ic',term) | ('bool',pyBool)
    def ev(s,node,env,pc):
        """returns list of (pc, value)"""
        k=node[0]
        if k=='tmpl':
            nm=s.norm(node[1])
            if nm in('index_sequence','integer_sequence'):
                elems=[]
                for a in node[2]:
                    if a==('ty','ulong') or a==('name','std::size_t') or a==('name','size_t'): continue
                    if a[0]=='expand': elems+=env[a[1][1]]
                    else: elems.append(s.scalar(a,env))
                return [(pc,('seq',elems))]
            if nm=='integral_constant': return [(pc,('ic',s.scalar(node[2][1],env)))]
            if nm=='conditional_t':
                c=s.scalar(node[2][0],env); out=[]
                for cond,br in ((c,node[2][1]),(Not(c),node[2][2])):
                    pc2=pc+[cond]
                    if s.feasible(pc2): out+=s.ev(br,env,pc2)
                return out
            if nm=='is_same':
                out=[]
                for pc1,a in s.ev(node[2][0],env,pc):
                    for pc2,b in s.ev(node[2][1],env,pc1):
                        if len(a[1])!=len(b[1]): out.append((pc2,('bool',BoolVal(False))))
                        else: out.append((pc2,('bool',And([x==y for x,y in zip(a[1],b[1])]) if a[1] else BoolVal(True))))
                return out
            raise Exception('bare template use '+nm)
        if k=='member':
            assert node[2]=='type'
            t=node[1]; nm=s.norm(t[1])
            if nm in('index_sequence','integer_sequence','integral_constant','conditional_t'): return s.ev(t,env,pc)
            # evaluate args, then apply user template
            alts=[(pc,[])]
            for a in t[2]:
                alts=[(pc2,vals+[v]) for pc1,vals in alts for pc2,v in s.ev(a,env,pc1)]
            out=[]
            for pc1,vals in alts: out+=s.apply(nm,vals,pc1)
            return out
        if k=='name':
            if s.norm(node[1])=='false_type': return [(pc,('bool',BoolVal(False)))]
        raise Exception(f'ev {node}')
    def scalar(s,node,env):
        if node[0]=='num': return BitVecVal(node[1],64)
        if node[0]=='name': return env[node[1]]
        if node[0]=='bin':
            a,b=s.scalar(node[2],env),s.scalar(node[3],env)
            return {'<':ULT(a,b),'>':UGT(a,b),'<=':ULE(a,b),'>=':UGE(a,b),'==':a==b,'!=':a!=b}[node[1]]
        raise Exception(f'scalar {node}')
    def match(s,rule,vals):
        """structural match of specialisation patterns against values -> env or None"""
        if rule['primary']: return None
        env={}; names=[n for n,_ in rule['params']]; packs={n:p for n,p in rule['params']}; order=iter(rule['params'])
        bound=[]
        def bind(is_pack,val):
            try: n,p=next(order)
            except StopIteration: raise Exception('more pattern holes than parameters')
            if p!=is_pack: raise Exception('pattern/parameter kind mismatch')
            env[n]=val
        for pat,val in zip(rule['args'],vals):
            pt=parse(pat); nm=s.norm(pt[1]) if pt[0]=='tmpl' else None
            if nm in('integer_sequence','index_sequence'):
                if val[0]!='seq': return None
                holes=[a for a in pt[2] if not (a==('ty','ulong') or a[0]=='name' and s.norm(a[1])=='size_t')]
                seq=val[1]; nfixed=sum(1 for h in holes if h[0]!='expand')
                if any(h[0]=='expand' for h in holes):
                    if len(seq)<nfixed: return None
                else:
                    if len(seq)!=nfixed: return None
                i=0
                for h in holes:
                    if h[0]=='expand': bind(True,seq[i:]); i=len(seq)
                    else: bind(False,seq[i]); i+=1
            elif nm=='integral_constant':
                if val[0]!='ic': return None
                # a parameter may be repeated across patterns (N): bind once
                hole=pt[2][1]
                if hole[0]=='name' and hole[1] in env: 
                    pass
                else: bind(False,val[1])
            else: raise Exception('unsupported pattern '+pat)
        return env
    def apply(s,name,vals,pc):
        cands=[]
        for r in s.rules[name]:
            if r['primary']: continue
            if len(r['args'])!=len(vals): continue
            env=s.match(r,vals)
            if env is not None: cands.append((r,env))
        if not cands:
            prim=[r for r in s.rules[name] if r['primary']][0]
            if prim['bases']: return s.ev(parse(prim['bases'][0]),{},pc)
            raise Exception(f'no specialisation of {name} matches {vals}')
        # most specialised: prefer the one with more non-pack params / fewer elements in packs (sufficient for these headers)
        cands.sort(key=lambda re: -sum(1 for _,p in re[0]['params'] if not p))
        r,env=cands[0]
        if r['alias']: return s.ev(parse(r['alias']),env,pc)
        return s.ev(parse(r['bases'][0]),env,pc)

if __name__=='__main__':
    rules=load_rules(sys.argv[1]); ev=Ev(rules)
    maxL=int(sys.argv[2]); S=Solver()
    for L in range(0,maxL+1):
        xs=[BitVec(f'x{i}',64) for i in range(L)]
        t=time.time(); leaves=ev.apply('sort_index_sequence',[('seq',xs)],[]); bad=0; unk=0
        for pc,(k,out) in leaves:
            # ascending
            S.push(); S.add(*pc); S.add(Or([UGT(out[i],out[i+1]) for i in range(len(out)-1)]) if len(out)>1 else BoolVal(False))
            r=S.check(); S.pop(); bad+= r==sat; unk+= r==unknown
            # permutation: output terms are the input variables, each exactly once
            ids=sorted(str(o) for o in out)
            if ids!=sorted(str(x) for x in xs): bad+=1
        print(f'sort L={L}: leaves={len(leaves)} bad={bad} unknown={unk} queries={ev.nq} {time.time()-t:.2f}s',flush=True)
    for (a,b) in [(0,0),(1,0),(1,1),(2,2),(3,3),(2,3)]:
        us=[BitVec(f'u{i}',64) for i in range(a)]; vs=[BitVec(f'v{i}',64) for i in range(b)]
        t=time.time(); leaves=ev.apply('is_permutation',[('seq',us),('seq',vs)],[]); bad=0
        oracle=Or([And([us[i]==vs[p[i]] for i in range(a)]) for p in itertools.permutations(range(b))]) if a==b else BoolVal(False)
        if a==b==0: oracle=BoolVal(True)
        for pc,(k,val) in leaves:
            S.push(); S.add(*pc); S.add(val!=oracle); r=S.check(); S.pop(); bad+= r!=unsat
        print(f'is_permutation {a},{b}: leaves={len(leaves)} bad={bad} {time.time()-t:.2f}s',flush=True)
