// C01 / C14 / C16 / C18(sizing): storage-order layers (strided = row-major, morton, hilbert)
#include "vf.h"
#include <climits>
#include <covfie/core/backend/primitive/array.hpp>
#include <covfie/core/backend/transformer/hilbert.hpp>
#include <covfie/core/backend/transformer/morton.hpp>
#include <covfie/core/backend/transformer/strided.hpp>
#include <covfie/core/field.hpp>
#include <covfie/core/field_view.hpp>
#include <covfie/core/utility/numeric.hpp>
#include <limits>
using namespace covfie;

template <class C> static constexpr size_t cmax()
{
    return static_cast<size_t>(std::numeric_limits<C>::max());
}

// An arbitrary view without allocation: extents, cell count and base pointer are copied into storage of the
// view's size (the constructor's allocation is checked by *_ctor_h). Layout: m_sizes[N], {m_size, m_ptr}.
template <class NO, size_t N, class E> static const NO & raw_view(unsigned char * raw, const size_t * s, size_t cells, E * base)
{
    static_assert(sizeof(NO) == (N + 2) * 8, "view layout changed: update raw_view");
    std::memcpy(raw, s, N * 8);
    std::memcpy(raw + N * 8, &cells, 8);
    std::memcpy(raw + N * 8 + 8, &base, 8);
    return *reinterpret_cast<const NO *>(raw);
}

// ---------------------------------------------------------------------------------------------- row-major (INT mode)
// extents unbounded beyond "the allocation is expressible": prod(s) * sizeof(E) <= PTRDIFF_MAX
template <size_t N, class C, class V> static void rowmajor_h()
{
    using B = backend::strided<vector::vector_d<C, N>, backend::array<V>>;
    using NO = typename B::non_owning_data_t;
    using E = typename backend::array<V>::vector_t;
    size_t s[N], c[N], d[N];
    size_t prod = 1;
    bool same = true;
    for (size_t k = 0; k < N; k++) {
        s[k] = vf_nondet_size();
        c[k] = vf_nondet_size();
        d[k] = vf_nondet_size();
        vf_assume(s[k] >= 1);
        vf_assume(c[k] < s[k] && c[k] <= cmax<C>());
        vf_assume(d[k] < s[k] && d[k] <= cmax<C>());
        size_t np;
        vf_assume(!__builtin_mul_overflow(prod, s[k], &np));
        prod = np;
        same = same && (c[k] == d[k]);
    }
    size_t bytes;
    vf_assume(!__builtin_mul_overflow(prod, sizeof(E), &bytes));
    vf_assume(bytes < (size_t(1) << 63));
    E * base = static_cast<E *>(vf_buffer(bytes));
    alignas(8) unsigned char raw[sizeof(NO)];
    const NO & v = raw_view<NO, N, E>(raw, s, prod, base);
    typename B::coordinate_t cc, dd;
    for (size_t k = 0; k < N; k++) {
        cc[k] = static_cast<C>(c[k]);
        dd[k] = static_cast<C>(d[k]);
    }
    vf_share(raw);
    vf_share(base);
    vf_region_begin(0);
    E & r1 = v.at(cc);
    vf_region_end(0);
    E & r2 = v.at(dd);
    size_t o1 = vf_ptrdiff(&r1, base), o2 = vf_ptrdiff(&r2, base);
    vf_assert(o1 % sizeof(E) == 0, 1);         // a whole cell
    vf_assert(o1 / sizeof(E) < prod, 2);       // inside the field's storage
    vf_assert(same || o1 != o2, 3);            // distinct coordinates never alias
    // C14: flat position sum_k c_k * prod_{l>k} s_l
    size_t pos = 0;
    for (size_t k = 0; k < N; k++) {
        size_t t = c[k];
        for (size_t l = k + 1; l < N; l++) t *= s[l];
        pos += t;
    }
    vf_assert(o1 == pos * sizeof(E), 4);
    vf_assert(vf_region_outer_stores() == 0 && vf_region_bad() == 0, 5);   // C16: the lookup writes nothing shared
    vf_observe_u64(o1);
    vf_observe_u64(o2);
}

// the real constructor: allocation is prod(s) cells, reported size prod(s)
template <size_t N, class V> static void rowmajor_ctor_h()
{
    using B = backend::strided<vector::vector_d<size_t, N>, backend::array<V>>;
    using E = typename backend::array<V>::vector_t;
    typename B::configuration_t s;
    size_t prod = 1;
    for (size_t k = 0; k < N; k++) {
        s[k] = vf_nondet_size();
        vf_assume(s[k] >= 1);
        size_t np;
        vf_assume(!__builtin_mul_overflow(prod, s[k], &np));
        prod = np;
    }
    size_t bytes;
    vf_assume(!__builtin_mul_overflow(prod, sizeof(E), &bytes));
    vf_assume(bytes < (size_t(1) << 62));
    typename B::owning_data_t o(s);
    vf_assert(o.get_backend().m_size == prod, 1);
    typename B::non_owning_data_t v(o);
    E * base = v.get_backend().m_ptr;
    // last cell lies inside the allocation, one past the end is the end (engine bounds VC on the address)
    vf_assert(vf_ptrdiff(base + (prod - 1), base) == (prod - 1) * sizeof(E), 2);
    for (size_t k = 0; k < N; k++) vf_assert(o.get_configuration()[k] == s[k], 3);
    volatile char probe = *reinterpret_cast<char *>(base + (prod - 1));   // in bounds (engine VC)
    (void)probe;
    vf_observe_u64(o.get_backend().m_size);
}

// ---------------------------------------------------------------------------------------------- Morton (BITS mode)
template <unsigned long E> static constexpr unsigned clog2()
{
    unsigned r = 0;
    while ((1ul << r) < E) r++;
    return r;
}

template <size_t N, class C, class V, bool BMI> static void morton_h()
{
    using B = backend::morton<vector::vector_d<C, N>, backend::array<V>, BMI>;
    using NO = typename B::non_owning_data_t;
    using E = typename backend::array<V>::vector_t;
    constexpr unsigned K = (63 - clog2<sizeof(E)>()) / N;   // P^N * sizeof(E) < 2^63
    constexpr unsigned KC = K < sizeof(C) * 8 - (std::is_signed_v<C> ? 1 : 0) ? K : sizeof(C) * 8 - (std::is_signed_v<C> ? 1 : 0);
    size_t s[N], c[N], d[N];
    size_t mx = 0;
    bool same = true;
    for (size_t k = 0; k < N; k++) {
        s[k] = vf_nondet_size();
        c[k] = vf_nondet_size();
        d[k] = vf_nondet_size();
        vf_assume(s[k] >= 1 && s[k] <= (size_t(1) << KC));
        vf_assume(c[k] < s[k] && d[k] < s[k]);
        vf_assume(c[k] <= cmax<C>() && d[k] <= cmax<C>());
        mx = s[k] > mx ? s[k] : mx;
        same = same && (c[k] == d[k]);
    }
    // storage size exactly as the library computes it
    size_t P = utility::round_pow2(mx);
    size_t cells = utility::ipow(P, N);
    E * base = static_cast<E *>(vf_buffer(cells * sizeof(E)));
    alignas(8) unsigned char raw[sizeof(NO)];
    const NO & v = raw_view<NO, N, E>(raw, s, cells, base);
    typename B::contravariant_input_t::vector_t cc, dd;
    for (size_t k = 0; k < N; k++) {
        cc[k] = static_cast<C>(c[k]);
        dd[k] = static_cast<C>(d[k]);
    }
    vf_share(raw);
    vf_share(base);
    vf_region_begin(0);
    E & r1 = v.at(cc);
    vf_region_end(0);
    E & r2 = v.at(dd);
    size_t o1 = vf_ptrdiff(&r1, base), o2 = vf_ptrdiff(&r2, base);
    vf_assert(o1 % sizeof(E) == 0, 1);
    vf_assert(o1 / sizeof(E) < cells, 2);      // C18 sizing: storage exceeds the largest curve position
    vf_assert(same || o1 != o2, 3);
    vf_assert(vf_region_outer_stores() == 0 && vf_region_bad() == 0, 5);
    vf_observe_u64(o1);
    vf_observe_u64(o2);
}

// C14: calculate_index == bit interleave with coordinate 0 least significant, all coordinates < 2^floor(64/N)
template <size_t N, class C, bool BMI, class I = size_t> static void morton_curve_h()
{
    // I: index type of the array backend beneath (the curve position is computed in it)
    using B = backend::morton<vector::vector_d<C, N>, backend::array<vector::float1, I>, BMI>;
    constexpr unsigned W = 64 / N;
    constexpr unsigned WC = W < sizeof(C) * 8 - (std::is_signed_v<C> ? 1 : 0) ? W : sizeof(C) * 8 - (std::is_signed_v<C> ? 1 : 0);
    size_t c[N];
    typename B::contravariant_input_t::vector_t cc;
    for (size_t k = 0; k < N; k++) {
        c[k] = vf_nondet_size();
        if (WC < 64) vf_assume(c[k] < (size_t(1) << WC));
        cc[k] = static_cast<C>(c[k]);
    }
    size_t idx = static_cast<size_t>(B::calculate_index(cc));
    size_t ref = 0;
    for (unsigned b = 0; b < W; b++)
        for (size_t k = 0; k < N; k++) ref |= ((c[k] >> b) & size_t(1)) << (b * N + k);
    vf_assert(idx == ref, 1);
    // both implementations agree
    using B2 = backend::morton<vector::vector_d<C, N>, backend::array<vector::float1, I>, !BMI>;
    vf_assert(static_cast<size_t>(B2::calculate_index(cc)) == idx, 2);
    vf_observe_u64(idx);
}

// ---------------------------------------------------------------------------------------------- Hilbert (BITS mode)
// curve properties on the 2^K x 2^K square (static index function)
template <unsigned K> static void hilbert_curve_h()
{
    // (dependent on K so that a change of the static index function's signature only affects the units that use it)
    using B = backend::hilbert<vector::vector_d<size_t, (K < 64 ? 2 : 3)>, backend::array<vector::float1>>;
    constexpr size_t n = size_t(1) << K;
    size_t x = vf_nondet_size(), y = vf_nondet_size(), x2 = vf_nondet_size(), y2 = vf_nondet_size();
    vf_assume(x < n && y < n && x2 < n && y2 < n);
    typename B::coordinate_t p{x, y}, q{x2, y2}, o{size_t(0), size_t(0)};
    utility::nd_size<2> sz{n, n};
    size_t d1 = B::calculate_index(p, sz), d2 = B::calculate_index(q, sz);
    vf_assert(d1 < n * n, 1);                                       // onto [0, 4^K)
    vf_assert((x == x2 && y == y2) || d1 != d2, 2);                 // every cell exactly once
    vf_assert(B::calculate_index(o, sz) == 0, 3);                   // starts at the origin
    size_t dx = x > x2 ? x - x2 : x2 - x, dy = y > y2 ? y - y2 : y2 - y;
    vf_assert(d2 != d1 + 1 || dx + dy == 1, 4);                     // consecutive positions are edge-adjacent
    vf_observe_u64(d1);
    vf_observe_u64(d2);
}

// the lookup through a view: in bounds and injective for arbitrary (also non-square, non-power-of-two) extents
template <class C, class V, unsigned K> static void hilbert_h()
{
    using B = backend::hilbert<vector::vector_d<C, 2>, backend::array<V>>;
    using NO = typename B::non_owning_data_t;
    using E = typename backend::array<V>::vector_t;
    size_t s[2], c[2], d[2];
    size_t mx = 0;
    bool same = true;
    for (size_t k = 0; k < 2; k++) {
        s[k] = vf_nondet_size();
        c[k] = vf_nondet_size();
        d[k] = vf_nondet_size();
        vf_assume(s[k] >= 1 && s[k] <= (size_t(1) << K));
        vf_assume(c[k] < s[k] && d[k] < s[k]);
        mx = s[k] > mx ? s[k] : mx;
        same = same && (c[k] == d[k]);
    }
    size_t P = utility::round_pow2(mx);
    size_t cells = utility::ipow(P, size_t(2));
    E * base = static_cast<E *>(vf_buffer(cells * sizeof(E)));
    alignas(8) unsigned char raw[sizeof(NO)];
    const NO & v = raw_view<NO, 2, E>(raw, s, cells, base);
    typename B::coordinate_t cc{static_cast<C>(c[0]), static_cast<C>(c[1])}, dd{static_cast<C>(d[0]), static_cast<C>(d[1])};
    vf_share(raw);
    vf_share(base);
    vf_region_begin(0);
    E & r1 = v.at(cc);
    vf_region_end(0);
    E & r2 = v.at(dd);
    size_t o1 = vf_ptrdiff(&r1, base), o2 = vf_ptrdiff(&r2, base);
    vf_assert(o1 % sizeof(E) == 0, 1);
    vf_assert(o1 / sizeof(E) < cells, 2);
    vf_assert(same || o1 != o2, 3);
    vf_assert(vf_region_outer_stores() == 0 && vf_region_bad() == 0, 5);
    vf_observe_u64(o1);
    vf_observe_u64(o2);
}

// ---------------------------------------------------------------------------------------------- end to end through the API
// LAYOUT: 0 row-major, 1 morton (bmi2 flag as compiled), 2 morton portable, 3 hilbert
template <int LAYOUT, size_t N, class C, class V> struct layout_of;
template <size_t N, class C, class V> struct layout_of<0, N, C, V> { using type = backend::strided<vector::vector_d<C, N>, backend::array<V>>; };
template <size_t N, class C, class V> struct layout_of<1, N, C, V> { using type = backend::morton<vector::vector_d<C, N>, backend::array<V>, true>; };
template <size_t N, class C, class V> struct layout_of<2, N, C, V> { using type = backend::morton<vector::vector_d<C, N>, backend::array<V>, false>; };
template <size_t N, class C, class V> struct layout_of<3, N, C, V> { using type = backend::hilbert<vector::vector_d<C, N>, backend::array<V>>; };

template <class B, size_t N> static field<B> make_field(const utility::nd_size<N> & s)
{
    if constexpr (std::is_constructible_v<typename B::owning_data_t, typename B::configuration_t>) {
        return field<B>(make_parameter_pack(typename B::configuration_t(s)));
    } else {
        size_t mx = 0;
        for (size_t k = 0; k < N; k++) mx = s[k] > mx ? s[k] : mx;
        size_t cells = utility::ipow(utility::round_pow2(mx), N);
        return field<B>(make_parameter_pack(typename B::configuration_t(s), typename B::backend_t::owning_data_t(cells)));
    }
}

template <int LAYOUT, size_t N, class C, class V, size_t BND> static void api_h()
{
    using B = typename layout_of<LAYOUT, N, C, V>::type;
    using S = typename V::type;
    constexpr size_t M = V::size;
    utility::nd_size<N> s;
    for (size_t k = 0; k < N; k++) s[k] = vf_nondet_range(1, BND);
    field<B> f = make_field<B, N>(s);
    typename field<B>::view_t v(f);
    // fill every cell with symbolic contents through the view
    size_t total = 1;
    for (size_t k = 0; k < N; k++) total *= s[k];
    for (size_t i = 0; i < total; i++) {
        typename field<B>::view_t::coordinate_t c;
        size_t r = i;
        for (size_t k = N; k-- > 0;) { c[k] = static_cast<C>(r % s[k]); r /= s[k]; }
        for (size_t j = 0; j < M; j++) {
            if constexpr (sizeof(S) == 4) v.at(c)[j] = vf_bits<S>(vf_nondet_u32());
            else v.at(c)[j] = vf_bits<S>(vf_nondet_u64());
        }
    }
    // symbolic write coordinate w, symbolic read coordinate r
    typename field<B>::view_t::coordinate_t w, r;
    bool same = true;
    for (size_t k = 0; k < N; k++) {
        size_t a = vf_nondet_size(), b = vf_nondet_size();
        vf_assume(a < s[k] && b < s[k]);
        w[k] = static_cast<C>(a);
        r[k] = static_cast<C>(b);
        same = same && a == b;
    }
    size_t j = vf_nondet_range(0, M - 1);
    using U = std::conditional_t<sizeof(S) == 4, uint32_t, uint64_t>;
    U before = vf_bits<U>(v.at(r)[j]);
    U val = sizeof(S) == 4 ? U(vf_nondet_u32()) : U(vf_nondet_u64());
    v.at(w)[j] = vf_bits<S>(val);
    U after = vf_bits<U>(v.at(r)[j]);
    vf_assert(after == (same ? val : before), 1);   // read back what was written; other coordinates untouched
    vf_observe_u64(after);
}

extern "C" void vf_main()
{
    VF_INST;
}
