// C02: "what a layer does never depends on which layers lie beneath it" - pairwise adjacency over REAL layers.
// For a wrapper W and a concrete array-backed stack X: W<X>.at(c) == valuemap_W( X.at( coordmap_W(c) ) ), where X.at is
// evaluated through X's own view of the very same storage (f.backend().get_backend()). The one-line definitions are those
// of c02_layers.cpp; there they are checked over the probe backend, here over every shipped layer directly beneath.
#include "vf_probe.hpp"
#include <covfie/core/backend/primitive/array.hpp>
#include <covfie/core/backend/primitive/constant.hpp>
#include <covfie/core/backend/transformer/affine.hpp>
#include <covfie/core/backend/transformer/backup.hpp>
#include <covfie/core/backend/transformer/clamp.hpp>
#include <covfie/core/backend/transformer/covariant_cast.hpp>
#include <covfie/core/backend/transformer/dereference.hpp>
#include <covfie/core/backend/transformer/hilbert.hpp>
#include <covfie/core/backend/transformer/linear.hpp>
#include <covfie/core/backend/transformer/morton.hpp>
#include <covfie/core/backend/transformer/nearest_neighbour.hpp>
#include <covfie/core/backend/transformer/shuffle.hpp>
#include <covfie/core/backend/transformer/strided.hpp>
#include <covfie/core/field.hpp>
#include <covfie/core/field_view.hpp>
#include <covfie/core/utility/numeric.hpp>
using namespace covfie;
namespace cb = covfie::backend;
namespace cv = covfie::vector;

static constexpr size_t EX = 3, EY = 2;      // extents of the storage-order layer (non-square, one not a power of two)
using A = cb::array<cv::float2>;
using S = cb::strided<cv::size2, A>;

// ------------------------------------------------------------------------------------------ what lies beneath
template <int K> struct under;
template <> struct under<0> { using type = S; };
template <> struct under<1> { using type = cb::morton<cv::size2, A, false>; };
template <> struct under<2> { using type = cb::hilbert<cv::size2, A>; };
template <> struct under<3> { using type = cb::clamp<S>; };
template <> struct under<4> { using type = cb::backup<S>; };
template <> struct under<5> { using type = cb::shuffle<S, std::index_sequence<1, 0>>; };
template <> struct under<6> { using type = cb::covariant_cast<double, S>; };
template <> struct under<7> { using type = cb::dereference<S>; };
template <> struct under<8> { using type = cb::constant<cv::size2, cv::float2>; };
template <> struct under<9> { using type = cb::morton<cv::size2, A, true>; };

template <class L> static typename L::owning_data_t layout()
{
    typename L::configuration_t s{EX, EY};
    typename L::owning_data_t o = [&] {
        if constexpr (std::is_constructible_v<typename L::owning_data_t, typename L::configuration_t>) return typename L::owning_data_t(s);
        else return typename L::owning_data_t(s, typename A::owning_data_t(utility::ipow(utility::round_pow2(EX > EY ? EX : EY), size_t(2))));
    }();
    typename L::non_owning_data_t v(o);
    for (size_t x = 0; x < EX; x++)
        for (size_t y = 0; y < EY; y++)
            for (size_t q = 0; q < 2; q++) v.at({x, y})[q] = vf_bits<float>(vf_nondet_u32());
    return o;
}

template <int K> static typename under<K>::type::owning_data_t beneath()
{
    using X = typename under<K>::type;
    if constexpr (K <= 2 || K == 9) {
        return layout<X>();
    } else if constexpr (K == 3) {
        typename X::configuration_t c;
        for (size_t k = 0; k < 2; k++) { c.min[k] = vf_nondet_size(); c.max[k] = vf_nondet_size(); }
        vf_assume(c.min[0] <= c.max[0] && c.max[0] < EX && c.min[1] <= c.max[1] && c.max[1] < EY);
        return typename X::owning_data_t(c, layout<S>());
    } else if constexpr (K == 4) {
        typename X::configuration_t c;
        for (size_t k = 0; k < 2; k++) { c.min[k] = vf_nondet_size(); c.max[k] = vf_nondet_size(); }
        vf_assume(c.max[0] < EX && c.max[1] < EY);
        c.default_value[0] = vf_bits<float>(vf_nondet_u32()); c.default_value[1] = vf_bits<float>(vf_nondet_u32());
        return typename X::owning_data_t(c, layout<S>());
    } else if constexpr (K == 8) {
        typename X::configuration_t c;
        c[0] = vf_bits<float>(vf_nondet_u32()); c[1] = vf_bits<float>(vf_nondet_u32());
        return typename X::owning_data_t(c);
    } else {
        return typename X::owning_data_t(typename X::configuration_t{}, layout<S>());
    }
}

// the coordinates X accepts without leaving its storage: (x, y) with x < DX, y < DY; clamp/backup/constant accept everything
template <int K> struct dom { static constexpr bool any = (K == 3 || K == 4 || K == 8); static constexpr size_t dx = (K == 5 ? EY : EX), dy = (K == 5 ? EX : EY); };

template <class T> static T clampv(T x, T lo, T hi) { return x < lo ? lo : (x > hi ? hi : x); }

template <class R1, class R2> static void same_out(const R1 & r, const R2 & want, int site)
{
    bool ok = true;
    for (size_t q = 0; q < 2; q++) {
        using T = std::decay_t<decltype(want[q])>;
        T a = static_cast<T>(r[q]), b = want[q];
        ok = ok && (vf::same_bits<T>(a, b) || (a != a && b != b));
    }
    vf_assert(ok, site);
}

// W: 0 clamp, 1 backup, 2 shuffle(1,0), 3 covariant_cast<double>, 4 dereference, 5 nearest_neighbour
template <int W, int K> static void adj_h()
{
    using X = typename under<K>::type;
    using D = dom<K>;
    auto xo = beneath<K>();
    size_t cx = vf_nondet_size(), cy = vf_nondet_size();
    if constexpr (W == 0) {
        using B = cb::clamp<X>;
        typename B::configuration_t c;
        for (size_t k = 0; k < 2; k++) { c.min[k] = vf_nondet_size(); c.max[k] = vf_nondet_size(); vf_assume(c.min[k] <= c.max[k]); }
        if constexpr (!D::any) vf_assume(c.max[0] < D::dx && c.max[1] < D::dy);
        auto cc = c;
        field<B> f(make_parameter_pack(typename B::owning_data_t(c, std::move(xo))));
        typename field<B>::view_t v(f);
        typename X::non_owning_data_t xv(f.backend().get_backend());
        auto r = v.at(cx, cy);
        auto want = xv.at({clampv(cx, cc.min[0], cc.max[0]), clampv(cy, cc.min[1], cc.max[1])});
        same_out(r, want, 1);
    } else if constexpr (W == 1) {
        using B = cb::backup<X>;
        typename B::configuration_t c;
        for (size_t k = 0; k < 2; k++) { c.min[k] = vf_nondet_size(); c.max[k] = vf_nondet_size(); }
        if constexpr (!D::any) vf_assume(c.max[0] < D::dx && c.max[1] < D::dy);
        using OT = typename B::covariant_output_t::scalar_t;
        OT d[2] = {vf::nondet<OT>(), vf::nondet<OT>()};
        c.default_value[0] = d[0]; c.default_value[1] = d[1];
        auto cc = c;
        field<B> f(make_parameter_pack(typename B::owning_data_t(c, std::move(xo))));
        typename field<B>::view_t v(f);
        typename X::non_owning_data_t xv(f.backend().get_backend());
        auto r = v.at(cx, cy);
        bool outside = cx < cc.min[0] || cx > cc.max[0] || cy < cc.min[1] || cy > cc.max[1];
        if (outside) {
            vf_assert((vf::same_bits<OT>(r[0], d[0]) || d[0] != d[0]) && (vf::same_bits<OT>(r[1], d[1]) || d[1] != d[1]), 2);
        } else {
            auto want = xv.at({cx, cy});
            same_out(r, want, 1);
        }
    } else if constexpr (W == 2) {
        using B = cb::shuffle<X, std::index_sequence<1, 0>>;
        if constexpr (!D::any) vf_assume(cx < D::dy && cy < D::dx);       // outer (cx, cy) -> inner (cy, cx)
        field<B> f(make_parameter_pack(typename B::owning_data_t(typename B::configuration_t{}, std::move(xo))));
        typename field<B>::view_t v(f);
        typename X::non_owning_data_t xv(f.backend().get_backend());
        auto r = v.at(cx, cy);
        auto want = xv.at({cy, cx});
        same_out(r, want, 1);
    } else if constexpr (W == 3) {
        using B = cb::covariant_cast<double, X>;
        if constexpr (!D::any) vf_assume(cx < D::dx && cy < D::dy);
        field<B> f(make_parameter_pack(typename B::owning_data_t(typename B::configuration_t{}, std::move(xo))));
        typename field<B>::view_t v(f);
        typename X::non_owning_data_t xv(f.backend().get_backend());
        auto r = v.at(cx, cy);
        auto inner = xv.at({cx, cy});
        double want[2] = {static_cast<double>(inner[0]), static_cast<double>(inner[1])};
        same_out(r, want, 1);
    } else if constexpr (W == 4) {
        using B = cb::dereference<X>;
        if constexpr (!D::any) vf_assume(cx < D::dx && cy < D::dy);
        field<B> f(make_parameter_pack(typename B::owning_data_t(typename B::configuration_t{}, std::move(xo))));
        typename field<B>::view_t v(f);
        typename X::non_owning_data_t xv(f.backend().get_backend());
        auto r = v.at(cx, cy);
        auto want = xv.at({cx, cy});
        same_out(r, want, 1);
    } else {
        using B = cb::nearest_neighbour<X>;
        // coordinates i - 0.25, i, i + 0.25 around lattice points (the rounding itself is decided by C04)
        size_t n[2];
        float x[2];
        for (size_t k = 0; k < 2; k++) {
            size_t i = vf_nondet_range(0, 3), h = vf_nondet_range(0, 2);
            x[k] = float(i) + (h == 0 ? -0.25f : h == 1 ? 0.0f : 0.25f);
            vf_assume(x[k] > -0.5f);
            n[k] = i;
        }
        if constexpr (!D::any) vf_assume(n[0] < D::dx && n[1] < D::dy);
        field<B> f(make_parameter_pack(typename B::owning_data_t(typename B::configuration_t{}, std::move(xo))));
        typename field<B>::view_t v(f);
        typename X::non_owning_data_t xv(f.backend().get_backend());
        auto r = v.at(x[0], x[1]);
        auto want = xv.at({n[0], n[1]});
        same_out(r, want, 1);
    }
    vf_observe_u64(W * 16 + K);
}

// linear directly above X: bit-identical to linear above a plain row-major array holding the values X reports at the lattice points
// (linear<strided<array>> itself is decided by C03; here only "the same, whatever lies beneath")
template <int K> static void adj_linear_h()
{
    using X = typename under<K>::type;
    using D = dom<K>;
    constexpr size_t DX = D::dx, DY = D::dy;
    using OV = typename X::covariant_output_t::vector_d;
    using OT = typename X::covariant_output_t::scalar_t;
    using R = cb::strided<cv::size2, cb::array<OV>>;
    auto xo = beneath<K>();
    typename R::owning_data_t ro(typename R::configuration_t{DX, DY});
    {
        typename X::non_owning_data_t xv(xo);
        typename R::non_owning_data_t rv(ro);
        for (size_t x = 0; x < DX; x++)
            for (size_t y = 0; y < DY; y++) {
                auto val = xv.at({x, y});
                for (size_t q = 0; q < 2; q++) rv.at({x, y})[q] = val[q];
            }
    }
    using BX = cb::linear<X>;
    using BR = cb::linear<R>;
    field<BX> fx(make_parameter_pack(typename BX::owning_data_t(typename BX::configuration_t{}, std::move(xo))));
    field<BR> fr(make_parameter_pack(typename BR::owning_data_t(typename BR::configuration_t{}, std::move(ro))));
    typename field<BX>::view_t vx(fx);
    typename field<BR>::view_t vr(fr);
    // every cell, fractional offsets in quarters (concrete coordinates; contents and configurations stay symbolic: with a symbolic
    // cell the two stacks index different buffers and the solver would have to equate two bit-blasted interpolants)
    float cx = float(vf_nondet_range(0, DX - 2)) + 0.25f * float(vf_nondet_range(0, 3));
    float cy = float(vf_nondet_range(0, DY - 2)) + 0.25f * float(vf_nondet_range(0, 3));
    auto a = vx.at(cx, cy);
    auto b = vr.at(cx, cy);
    bool ok = true;
    for (size_t q = 0; q < 2; q++) ok = ok && (vf::same_bits<OT>(a[q], b[q]) || (a[q] != a[q] && b[q] != b[q]));
    vf_assert(ok, 1);
    vf_observe_u64(100 + K);
}

// the same for N = 1, 3, 4 (linear has one code path per dimensionality and a generic one for N >= 4): storage 2 x 3 x 2 x 2
template <size_t N> struct dimsN { static constexpr size_t e[4] = {2, 3, 2, 2}; };
template <size_t N, size_t... Is> static std::index_sequence<N - 1, Is...> rot_seq(std::index_sequence<Is...>);
template <size_t N> using rot_t = decltype(rot_seq<N>(std::make_index_sequence<N - 1>{}));
template <size_t N> using AN = cb::array<cv::float1>;
template <size_t N> using SN = cb::strided<cv::vector_d<size_t, N>, AN<N>>;
// K: 0 strided, 1 morton portable, 2 shuffle (rotation), 3 clamp, 4 backup, 5 morton pdep
template <size_t N, int K> struct underN;
template <size_t N> struct underN<N, 0> { using type = SN<N>; };
template <size_t N> struct underN<N, 1> { using type = cb::morton<cv::vector_d<size_t, N>, AN<N>, false>; };
template <size_t N> struct underN<N, 2> { using type = cb::shuffle<SN<N>, rot_t<N>>; };
template <size_t N> struct underN<N, 3> { using type = cb::clamp<SN<N>>; };
template <size_t N> struct underN<N, 4> { using type = cb::backup<SN<N>>; };
template <size_t N> struct underN<N, 5> { using type = cb::morton<cv::vector_d<size_t, N>, AN<N>, true>; };

template <size_t N, class F> static void for_cells(const size_t * d, F && f)
{
    size_t total = 1;
    for (size_t k = 0; k < N; k++) total *= d[k];
    for (size_t i = 0; i < total; i++) {
        covfie::array::array<size_t, N> c;
        size_t r = i;
        for (size_t k = N; k-- > 0;) { c[k] = r % d[k]; r /= d[k]; }
        f(c);
    }
}

template <size_t N, class L> static typename L::owning_data_t layoutN()
{
    typename L::configuration_t s;
    for (size_t k = 0; k < N; k++) s[k] = dimsN<N>::e[k];
    typename L::owning_data_t o = [&] {
        if constexpr (std::is_constructible_v<typename L::owning_data_t, typename L::configuration_t>) return typename L::owning_data_t(s);
        else return typename L::owning_data_t(s, typename AN<N>::owning_data_t(utility::ipow(utility::round_pow2(size_t(N > 1 ? 3 : 2)), N)));
    }();
    typename L::non_owning_data_t v(o);
    for_cells<N>(dimsN<N>::e, [&](auto c) { v.at(c)[0] = vf_bits<float>(vf_nondet_u32()); });
    return o;
}

template <size_t N, int K> static void adj_linearN_h()
{
    using X = typename underN<N, K>::type;
    using R = SN<N>;
    size_t d[N];       // the coordinates X accepts
    for (size_t k = 0; k < N; k++) d[k] = dimsN<N>::e[k];
    if constexpr (K == 2 && N > 1) {
        for (size_t j = 0; j + 1 < N; j++) d[j] = dimsN<N>::e[j + 1];
        d[N - 1] = dimsN<N>::e[0];
    }
    auto xo = [&] {
        if constexpr (K == 0 || K == 1 || K == 5) {
            return layoutN<N, X>();
        } else if constexpr (K == 3 || K == 4) {
            typename X::configuration_t c;
            for (size_t k = 0; k < N; k++) { c.min[k] = 0; c.max[k] = d[k] - 1; }
            if constexpr (K == 4) c.default_value[0] = vf_bits<float>(vf_nondet_u32());
            return typename X::owning_data_t(c, layoutN<N, SN<N>>());
        } else {
            return typename X::owning_data_t(typename X::configuration_t{}, layoutN<N, SN<N>>());
        }
    }();
    typename R::configuration_t rs;
    for (size_t k = 0; k < N; k++) rs[k] = d[k];
    typename R::owning_data_t ro(rs);
    {
        typename X::non_owning_data_t xv(xo);
        typename R::non_owning_data_t rv(ro);
        for_cells<N>(d, [&](auto c) { rv.at(c)[0] = xv.at(c)[0]; });
    }
    using BX = cb::linear<X>;
    using BR = cb::linear<R>;
    field<BX> fx(make_parameter_pack(typename BX::owning_data_t(typename BX::configuration_t{}, std::move(xo))));
    field<BR> fr(make_parameter_pack(typename BR::owning_data_t(typename BR::configuration_t{}, std::move(ro))));
    typename field<BX>::view_t vx(fx);
    typename field<BR>::view_t vr(fr);
    // every cell, offsets 0, 1/4, 3/4 per axis (N <= 3) or 1/4, 3/4 (N = 4): concrete coordinates, symbolic contents
    const float offs[3] = {0.25f, 0.75f, 0.0f};
    typename field<BX>::coordinate_t c;
    for (size_t k = 0; k < N; k++) c[k] = float(vf_nondet_range(0, d[k] - 2)) + offs[vf_nondet_range(0, N <= 3 ? 2 : 1)];
    auto a = vx.at(c);
    auto b = vr.at(c);
    vf_assert(vf::same_bits<float>(a[0], b[0]) || (a[0] != a[0] && b[0] != b[0]), 1);
    vf_observe_u64(300 + K);
}

// affine directly above Y: the value Y's own view gives at A c + t (A c + t by the library's algebra, decided by C09)
template <int Y> struct real_under;
template <> struct real_under<0> { using type = cb::nearest_neighbour<cb::clamp<S>>; };
template <> struct real_under<1> { using type = cb::linear<cb::clamp<S>>; };
template <> struct real_under<2> { using type = cb::nearest_neighbour<cb::clamp<cb::morton<cv::size2, A, false>>>; };
template <> struct real_under<3> { using type = cb::linear<cb::clamp<cb::hilbert<cv::size2, A>>>; };

template <int Y> static void adj_affine_h()
{
    using T = typename real_under<Y>::type;
    using C = typename T::backend_t;
    using L = typename C::backend_t;
    typename C::configuration_t cl;
    cl.min[0] = 0; cl.min[1] = 0; cl.max[0] = EX - 1; cl.max[1] = EY - 1;
    typename T::owning_data_t to(typename T::configuration_t{}, typename C::owning_data_t(cl, layout<L>()));
    using B = cb::affine<T>;
    // linear's domain is x >= 0 (C03; negative coordinates make its float -> index conversion undefined): for the linear
    // stacks matrix and coordinate are non-negative, so A c + t is; nearest neighbour takes either sign
    constexpr float LOW = (Y == 1 || Y == 3) ? 0.0f : -8.0f;
    algebra::matrix<2, 3, float> m;
    for (size_t i = 0; i < 2; i++)
        for (size_t j = 0; j < 3; j++) {
            float a = vf_nondet_f32();
            vf_assume(a >= LOW && a <= 8.0f);
            m(i, j) = a;
        }
    algebra::affine<2, float> tr(m);
    field<B> f(make_parameter_pack(typename B::owning_data_t(tr, std::move(to))));
    typename field<B>::view_t v(f);
    typename T::non_owning_data_t tv(f.backend().get_backend());
    algebra::vector<2, float> c;
    for (size_t k = 0; k < 2; k++) {
        float a = vf_nondet_f32();
        vf_assume(a >= LOW && a <= 8.0f);
        c(k) = a;
    }
    auto r = v.at(c(0), c(1));
    algebra::vector<2, float> p = f.backend().get_configuration() * c;
    auto want = tv.at({p(0), p(1)});
    bool ok = true;
    for (size_t q = 0; q < 2; q++) ok = ok && (vf::same_bits<float>(r[q], want[q]) || (r[q] != r[q] && want[q] != want[q]));
    vf_assert(ok, 1);
    vf_observe_u64(200 + Y);
}

extern "C" void vf_main()
{
    VF_INST;
}
