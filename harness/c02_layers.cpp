// C02 / C10 / C11 / C04: per-layer obligations over the probe backend (uninterpreted "whatever lies beneath")
#include "vf_probe.hpp"
#include <algorithm>
#include <covfie/core/backend/primitive/array.hpp>
#include <covfie/core/backend/primitive/constant.hpp>
#include <covfie/core/backend/primitive/identity.hpp>
#include <covfie/core/backend/transformer/backup.hpp>
#include <covfie/core/backend/transformer/clamp.hpp>
#include <covfie/core/backend/transformer/covariant_cast.hpp>
#include <covfie/core/backend/transformer/dereference.hpp>
#include <covfie/core/backend/transformer/nearest_neighbour.hpp>
#include <covfie/core/backend/transformer/shuffle.hpp>
#include <covfie/core/backend/transformer/strided.hpp>
#include <covfie/core/field.hpp>
#include <covfie/core/field_view.hpp>
#include <limits>
using namespace covfie;

template <class F, class... A> static F build(A &&... a)
{
    return F(make_parameter_pack(std::forward<A>(a)...));
}

// ---------------------------------------------------------------------------------------------- clamp (C10, C02)
template <size_t N, size_t M, class Tin, class Tout> static void clamp_h()
{
    using P = vf::probe<N, M, Tin, Tout>;
    using L = backend::clamp<P>;
    typename L::configuration_t cfg;
    Tin x[N], e[N];
    typename field<L>::coordinate_t c;
    for (size_t k = 0; k < N; k++) {
        cfg.min[k] = vf::nondet<Tin>();
        cfg.max[k] = vf::nondet<Tin>();
        x[k] = vf::nondet<Tin>();
        vf_assume(!vf::is_nan(cfg.min[k]) && !vf::is_nan(cfg.max[k]) && !vf::is_nan(x[k]));
        vf_assume(cfg.min[k] <= cfg.max[k]);
        c[k] = x[k];
        // oracle: two comparisons and two selects
        e[k] = x[k] < cfg.min[k] ? cfg.min[k] : (x[k] > cfg.max[k] ? cfg.max[k] : x[k]);
    }
    field<L> f = build<field<L>>(std::move(cfg), std::monostate{});
    typename field<L>::view_t v(f);
    vf_probe_reset();
    vf_region_begin(0);
    auto r = v.at(c);
    vf_region_end(0);
    vf_assert(vf::called_once_with<Tin>(e, N), 1);                 // backend queried once, at the clamped coordinate
    for (size_t j = 0; j < M; j++) vf_assert(vf::same_bits<Tout>(r[j], vf::uf<Tout, Tin>(0, e, N, j)), 2);   // and its value returned
    for (size_t k = 0; k < N; k++) vf_assert(e[k] >= f.backend().get_configuration().min[k] && e[k] <= f.backend().get_configuration().max[k], 3);
    vf_assert(vf_region_outer_stores() == 0 && vf_region_bad() == 0, 4);
    for (size_t k = 0; k < N; k++) {
        if constexpr (std::is_floating_point_v<Tin>) vf_observe_f64(static_cast<double>(e[k]));
        else vf_observe_u64(vf::ikey(e[k]));
    }
}

// ---------------------------------------------------------------------------------------------- backup (C11, C02)
template <size_t N, size_t M, class Tin, class Tout> static void backup_h()
{
    using P = vf::probe<N, M, Tin, Tout>;
    using L = backend::backup<P>;
    typename L::configuration_t cfg;
    Tin x[N];
    Tout dflt[M];
    typename field<L>::coordinate_t c;
    bool outside = false;
    for (size_t k = 0; k < N; k++) {
        cfg.min[k] = vf::nondet<Tin>();
        cfg.max[k] = vf::nondet<Tin>();
        x[k] = vf::nondet<Tin>();
        vf_assume(!vf::is_nan(cfg.min[k]) && !vf::is_nan(cfg.max[k]) && !vf::is_nan(x[k]));
        c[k] = x[k];
        outside = outside || x[k] < cfg.min[k] || x[k] > cfg.max[k];
    }
    for (size_t j = 0; j < M; j++) {
        dflt[j] = vf::nondet<Tout>();
        cfg.default_value[j] = dflt[j];
    }
    field<L> f = build<field<L>>(std::move(cfg), std::monostate{});
    typename field<L>::view_t v(f);
    vf_probe_reset();
    vf_region_begin(0);
    auto r = v.at(c);
    vf_region_end(0);
    if (outside) {
        vf_assert(vf_probe_calls() == 0, 1);                                   // backend untouched
        for (size_t j = 0; j < M; j++) vf_assert(vf::same_bits<Tout>(r[j], dflt[j]), 2);   // the default, bit for bit
    } else {
        vf_assert(vf::called_once_with<Tin>(x, N), 3);
        for (size_t j = 0; j < M; j++) vf_assert(vf::same_bits<Tout>(r[j], vf::uf<Tout, Tin>(0, x, N, j)), 4);
    }
    vf_assert(vf_region_outer_stores() == 0 && vf_region_bad() == 0, 5);
    vf_observe_u64(outside);
}

// ---------------------------------------------------------------------------------------------- shuffle (C02)
template <size_t N, size_t M, class Tin, class Tout, size_t... Is> static void shuffle_h()
{
    using P = vf::probe<N, M, Tin, Tout>;
    using L = backend::shuffle<P, std::index_sequence<Is...>>;
    static_assert(sizeof...(Is) == N);
    constexpr size_t perm[N] = {Is...};
    Tin x[N], e[N];
    typename field<L>::coordinate_t c;
    for (size_t k = 0; k < N; k++) {
        x[k] = vf::nondet<Tin>();
        vf_assume(!vf::is_nan(x[k]));
        c[k] = x[k];
    }
    for (size_t k = 0; k < N; k++) e[k] = x[perm[k]];     // f(c)[k] = c[idx_k]
    field<L> f = build<field<L>>(std::monostate{}, std::monostate{});
    typename field<L>::view_t v(f);
    vf_probe_reset();
    auto r = v.at(c);
    vf_assert(vf::called_once_with<Tin>(e, N), 1);
    for (size_t j = 0; j < M; j++) vf_assert(vf::same_bits<Tout>(r[j], vf::uf<Tout, Tin>(0, e, N, j)), 2);
    vf_observe_u64(vf_probe_calls());
}

// ---------------------------------------------------------------------------------------------- covariant_cast (C02)
template <size_t N, size_t M, class Tin, class Tout, class Target> static void cast_h()
{
    using P = vf::probe<N, M, Tin, Tout>;
    using L = backend::covariant_cast<Target, P>;
    static_assert(L::covariant_output_t::dimensions == M);
    Tin x[N];
    typename field<L>::coordinate_t c;
    for (size_t k = 0; k < N; k++) {
        x[k] = vf::nondet<Tin>();
        vf_assume(!vf::is_nan(x[k]));
        c[k] = x[k];
    }
    field<L> f = build<field<L>>(std::monostate{}, std::monostate{});
    typename field<L>::view_t v(f);
    vf_probe_reset();
    auto r = v.at(c);
    // every query the layer makes is at c itself (it may ask once per component)
    vf_assert(vf_probe_calls() >= 1, 1);
    {
        bool ok = true;
        for (uint64_t q = 0; q < vf_probe_calls() && q < 8; q++)
            for (size_t k = 0; k < N; k++) {
                if constexpr (std::is_floating_point_v<Tin>) ok = ok && vf_probe_arg_r(q, k + 1) == static_cast<double>(x[k]);
                else ok = ok && vf_probe_arg(q, k + 1) == vf::ikey(x[k]);
            }
        vf_assert(ok, 2);
    }
    for (size_t j = 0; j < M; j++) {
        Tout u = vf::uf<Tout, Tin>(0, x, N, j);
        if constexpr (std::is_floating_point_v<Tout> && !std::is_floating_point_v<Target>) vf_assume(false);   // not used
        vf_assert(vf::same_bits<Target>(r[j], static_cast<Target>(u)) || (vf::is_nan(u)), 3);   // g(v)[j] = (T) v[j]
    }
    vf_observe_u64(vf_probe_calls());
}

// ---------------------------------------------------------------------------------------------- dereference (C02)
template <size_t N, class V> static void deref_h()
{
    using S = backend::strided<vector::vector_d<size_t, N>, backend::array<V>>;
    using L = backend::dereference<S>;
    using T = typename V::type;
    constexpr size_t M = V::size;
    typename S::configuration_t s;
    size_t total = 1;
    for (size_t k = 0; k < N; k++) { s[k] = 2; total *= 2; }
    field<S> fs = build<field<S>>(typename S::configuration_t(s));
    typename field<S>::view_t vs(fs);
    for (size_t i = 0; i < total; i++) {
        typename field<S>::coordinate_t c;
        for (size_t k = 0; k < N; k++) c[k] = (i >> k) & 1;
        for (size_t j = 0; j < M; j++) vs.at(c)[j] = vf::nondet<T>();
    }
    field<L> f = build<field<L>>(std::monostate{}, fs.backend());
    typename field<L>::view_t v(f);
    typename field<L>::coordinate_t c;
    for (size_t k = 0; k < N; k++) { size_t a = vf_nondet_size(); vf_assume(a < 2); c[k] = a; }
    auto r = v.at(c);                       // by value
    static_assert(!std::is_reference_v<decltype(r)>);
    static_assert(!std::is_reference_v<typename field<L>::output_t>);
    for (size_t j = 0; j < M; j++) vf_assert(vf::same_bits<T>(r[j], vs.at(c)[j]), 1);
    // a copy: later writes to the storage are not seen through the value already obtained
    T old0 = r[0];
    vs.at(c)[0] = vf::nondet<T>();
    vf_assert(vf::same_bits<T>(r[0], old0), 2);
    vf_observe_u64(1);
}

// ---------------------------------------------------------------------------------------------- constant, identity (C02)
template <size_t N, size_t M, class Tin, class Tout> static void constant_h()
{
    using L = backend::constant<vector::vector_d<Tin, N>, vector::vector_d<Tout, M>>;
    typename L::configuration_t val;
    Tout w[M];
    for (size_t j = 0; j < M; j++) { w[j] = vf::nondet<Tout>(); val[j] = w[j]; }
    field<L> f = build<field<L>>(std::move(val));
    typename field<L>::view_t v(f);
    typename field<L>::coordinate_t c;
    for (size_t k = 0; k < N; k++) c[k] = vf::nondet<Tin>();
    vf_probe_reset();
    auto r = v.at(c);
    for (size_t j = 0; j < M; j++) vf_assert(vf::same_bits<Tout>(r[j], w[j]), 1);
    for (size_t j = 0; j < M; j++) vf_assert(vf::same_bits<Tout>(f.backend().get_configuration()[j], w[j]), 2);
    vf_observe_u64(1);
}

template <size_t N, class T> static void identity_h()
{
    using L = backend::identity<vector::vector_d<T, N>>;
    field<L> f;
    typename field<L>::view_t v(f);
    typename field<L>::coordinate_t c;
    T x[N];
    for (size_t k = 0; k < N; k++) { x[k] = vf::nondet<T>(); c[k] = x[k]; }
    auto r = v.at(c);
    for (size_t k = 0; k < N; k++) vf_assert(vf::same_bits<T>(r[k], x[k]), 1);
    vf_observe_u64(1);
}

// the vector type every coordinate, value and configuration is made of (covfie::array::array): each constructor builds the
// vector it is named for (fill: every component; from a C array; from N scalars; copy), element access, size, begin/end;
// and a constant backend configured through the fill constructor returns that value in every component
template <size_t N, class T> static void vec_h()
{
    using A = array::array<T, N>;
    T w[N];
    for (size_t k = 0; k < N; k++) w[k] = vf::nondet<T>();
    A fill(w[0]);
    bool ok = true;
    for (size_t k = 0; k < N; k++) ok = ok && vf::same_bits<T>(fill[k], w[0]) && vf::same_bits<T>(fill.at(k), w[0]);
    vf_assert(ok, 1);
    ok = true;
    if constexpr (N > 1) {
        T carr[N];
        for (size_t k = 0; k < N; k++) carr[k] = w[k];
        A from(carr);
        for (size_t k = 0; k < N; k++) ok = ok && vf::same_bits<T>(from[k], w[k]);
    }
    A var = [&] {
        if constexpr (N == 1) return A(w[0]);
        else if constexpr (N == 2) return A(w[0], w[1]);
        else if constexpr (N == 3) return A(w[0], w[1], w[2]);
        else return A(w[0], w[1], w[2], w[3]);
    }();
    for (size_t k = 0; k < N; k++) ok = ok && vf::same_bits<T>(var[k], w[k]);
    A cp(var);
    A as;
    as = var;
    for (size_t k = 0; k < N; k++) ok = ok && vf::same_bits<T>(cp[k], w[k]) && vf::same_bits<T>(as[k], w[k]);
    vf_assert(ok, 2);
    ok = var.size() == N && var.end() - var.begin() == static_cast<std::ptrdiff_t>(N) && var.cend() - var.cbegin() == static_cast<std::ptrdiff_t>(N);
    size_t i = 0;
    for (const T & e : var) { ok = ok && vf::same_bits<T>(e, w[i]); i++; }
    ok = ok && i == N;
    var[N - 1] = w[0];
    ok = ok && vf::same_bits<T>(var.at(N - 1), w[0]);
    vf_assert(ok, 3);
    // through a stack: constant<float2 -> T^N> configured with the fill constructor
    using L = backend::constant<vector::float2, vector::vector_d<T, N>>;
    field<L> f = build<field<L>>(typename L::configuration_t(w[0]));
    typename field<L>::view_t v(f);
    auto r = v.at(vf_nondet_f32(), vf_nondet_f32());
    ok = true;
    for (size_t k = 0; k < N; k++) ok = ok && vf::same_bits<T>(r[k], w[0]);
    vf_assert(ok, 4);
    vf_observe_u64(N);
}

// the variadic and the vector form of field_view::at agree (N = 1..4)
template <size_t N, size_t M, class Tin, class Tout> static void viewforms_h()
{
    using P = vf::probe<N, M, Tin, Tout>;
    field<P> f;
    typename field<P>::view_t v(f);
    Tin x[4];
    typename field<P>::coordinate_t c;
    for (size_t k = 0; k < N; k++) { x[k] = vf::nondet<Tin>(); vf_assume(!vf::is_nan(x[k])); c[k] = x[k]; }
    auto a = v.at(c);
    typename field<P>::output_t b;
    if constexpr (N == 1) b = v.at(x[0]);
    if constexpr (N == 2) b = v.at(x[0], x[1]);
    if constexpr (N == 3) b = v.at(x[0], x[1], x[2]);
    if constexpr (N == 4) b = v.at(x[0], x[1], x[2], x[3]);
    for (size_t j = 0; j < M; j++) vf_assert(vf::same_bits<Tout>(a[j], b[j]), 1);
    vf_assert(vf_probe_calls() == 2, 2);
    bool ok = true;
    for (size_t k = 0; k < N; k++) {
        if constexpr (std::is_floating_point_v<Tin>) ok = ok && vf_probe_arg_r(0, k + 1) == vf_probe_arg_r(1, k + 1);
        else ok = ok && vf_probe_arg(0, k + 1) == vf_probe_arg(1, k + 1);
    }
    vf_assert(ok, 3);
    vf_observe_u64(1);
}

// ---------------------------------------------------------------------------------------------- nearest neighbour (C04, C02)
// for every x_k in (-0.5, E_k - 0.5): the delegated lattice coordinate n_k satisfies |n_k - x_k| <= 0.5
template <size_t N, size_t M, class Tc, class Tidx, class Tout> static void nn_h()
{
    using P = vf::probe<N, M, Tidx, Tout>;
    using L = backend::nearest_neighbour<P, vector::vector_d<Tc, N>>;
    constexpr double FLIM = std::is_same_v<Tc, float> ? 8388608.0 : 4503599627370496.0;   // 2^23 / 2^52
    // a backend indexed by a narrow integer type has at most max(Tidx) + 1 cells per axis
    constexpr double TLIM = sizeof(Tidx) < 8 ? static_cast<double>(std::numeric_limits<Tidx>::max()) + 1.0 : FLIM;
    constexpr double LIM = TLIM < FLIM ? TLIM : FLIM;
    Tc x[N];
    typename field<L>::coordinate_t c;
    for (size_t k = 0; k < N; k++) {
        x[k] = vf::nondet<Tc>();
        vf_assume(x[k] > Tc(-0.5) && static_cast<double>(x[k]) < LIM - 0.5);
        c[k] = x[k];
    }
    field<L> f = build<field<L>>(std::monostate{}, std::monostate{});
    typename field<L>::view_t v(f);
    vf_probe_reset();
    auto r = v.at(c);
    vf_assert(vf_probe_calls() == 1, 1);
    Tidx n[N];
    for (size_t k = 0; k < N; k++) {
        uint64_t nk = vf_probe_arg(0, k + 1);
        n[k] = static_cast<Tidx>(nk);
        vf_assert(nk <= (uint64_t)LIM, 2);
        // exact comparison: n_k - 0.5 <= x_k <= n_k + 0.5 (both sides exactly representable in double)
        double nd = static_cast<double>(nk), xd = static_cast<double>(x[k]);
        vf_assert(nd - 0.5 <= xd && xd <= nd + 0.5, 3);
    }
    for (size_t j = 0; j < M; j++) vf_assert(vf::same_bits<Tout>(r[j], vf::uf<Tout, Tidx>(0, n, N, j)), 4);
    for (size_t k = 0; k < N; k++) vf_observe_u64(vf_probe_arg(0, k + 1));
}

extern "C" void vf_main()
{
    VF_INST;
}
