// C02: fixed stacks of depth 3-5 checked directly against the composition of the one-line layer definitions
#include "vf_probe.hpp"
#include <covfie/core/backend/primitive/array.hpp>
#include <covfie/core/backend/transformer/backup.hpp>
#include <covfie/core/backend/transformer/clamp.hpp>
#include <covfie/core/backend/transformer/covariant_cast.hpp>
#include <covfie/core/backend/transformer/dereference.hpp>
#include <covfie/core/backend/transformer/nearest_neighbour.hpp>
#include <covfie/core/backend/transformer/shuffle.hpp>
#include <covfie/core/backend/transformer/strided.hpp>
#include <covfie/core/field.hpp>
#include <covfie/core/field_view.hpp>
using namespace covfie;
namespace cb = covfie::backend;
namespace cv = covfie::vector;

template <class T> static T clampv(T x, T lo, T hi) { return x < lo ? lo : (x > hi ? hi : x); }

// depth 5: clamp< backup< shuffle< clamp< probe<3,2,int,float> > , (2,0,1) > > >
static void stack_a()
{
    using P = vf::probe<3, 2, int, float>;
    using C2 = cb::clamp<P>;
    using S = cb::shuffle<C2, std::index_sequence<2, 0, 1>>;
    using B = cb::backup<S>;
    using C1 = cb::clamp<B>;
    typename C1::configuration_t c1;
    typename B::configuration_t b;
    typename C2::configuration_t c2;
    int x[3];
    typename field<C1>::coordinate_t c;
    for (size_t k = 0; k < 3; k++) {
        c1.min[k] = vf_nondet_i32(); c1.max[k] = vf_nondet_i32(); vf_assume(c1.min[k] <= c1.max[k]);
        c2.min[k] = vf_nondet_i32(); c2.max[k] = vf_nondet_i32(); vf_assume(c2.min[k] <= c2.max[k]);
        b.min[k] = vf_nondet_i32(); b.max[k] = vf_nondet_i32();
        x[k] = vf_nondet_i32(); c[k] = x[k];
    }
    float d[2];
    for (size_t j = 0; j < 2; j++) { d[j] = vf_nondet_f32(); b.default_value[j] = d[j]; }
    field<C1> f(make_parameter_pack(std::move(c1), std::move(b), std::monostate{}, std::move(c2), std::monostate{}));
    typename field<C1>::view_t v(f);
    vf_probe_reset();
    auto r = v.at(c);
    // composition, outermost first
    auto g1 = f.backend().get_configuration();
    auto gb = f.backend().get_backend().get_configuration();
    auto g2 = f.backend().get_backend().get_backend().get_backend().get_configuration();
    int y[3], z[3], w[3];
    bool outside = false;
    for (size_t k = 0; k < 3; k++) { y[k] = clampv(x[k], g1.min[k], g1.max[k]); outside = outside || y[k] < gb.min[k] || y[k] > gb.max[k]; }
    constexpr size_t perm[3] = {2, 0, 1};
    for (size_t k = 0; k < 3; k++) z[k] = y[perm[k]];
    for (size_t k = 0; k < 3; k++) w[k] = clampv(z[k], g2.min[k], g2.max[k]);
    if (outside) {
        vf_assert(vf_probe_calls() == 0, 1);
        for (size_t j = 0; j < 2; j++) vf_assert(vf::same_bits<float>(r[j], d[j]), 2);
    } else {
        vf_assert(vf::called_once_with<int>(w, 3), 3);
        for (size_t j = 0; j < 2; j++) vf_assert(vf::same_bits<float>(r[j], vf::uf<float, int>(0, w, 3, j)), 4);
    }
    vf_observe_u64(outside);
}

// depth 4 over array storage: covariant_cast<double, backup< shuffle< strided<size2, array<float2>>, (1,0) > > >
static void stack_b()
{
    using S = cb::strided<cv::size2, cb::array<cv::float2>>;
    using Sh = cb::shuffle<S, std::index_sequence<1, 0>>;
    using B = cb::backup<Sh>;
    using C = cb::covariant_cast<double, B>;
    typename S::owning_data_t st(typename S::configuration_t{size_t(2), size_t(3)});
    uint32_t cell[2][3][2];
    {
        typename S::non_owning_data_t sv(st);
        for (size_t i = 0; i < 2; i++)
            for (size_t j = 0; j < 3; j++)
                for (size_t q = 0; q < 2; q++) { cell[i][j][q] = vf_nondet_u32(); sv.at({i, j})[q] = vf_bits<float>(cell[i][j][q]); }
    }
    typename B::configuration_t b;
    b.min[0] = 0; b.min[1] = 0; b.max[0] = 2; b.max[1] = 1;        // box in the *outer* (unshuffled) coordinates: (3 x 2)
    uint32_t dbits[2] = {vf_nondet_u32(), vf_nondet_u32()};
    b.default_value[0] = vf_bits<float>(dbits[0]); b.default_value[1] = vf_bits<float>(dbits[1]);
    field<C> f(make_parameter_pack(std::monostate{}, std::move(b), std::monostate{}, std::move(st)));
    typename field<C>::view_t v(f);
    size_t x = vf_nondet_size(), y = vf_nondet_size();
    auto r = v.at(x, y);
    bool outside = x > 2 || y > 1;
    for (size_t q = 0; q < 2; q++) {
        float want = outside ? vf_bits<float>(dbits[q]) : vf_bits<float>(cell[outside ? 0 : y][outside ? 0 : x][q]);   // shuffle (1,0): inner = (y, x)
        double wd = static_cast<double>(want);
        vf_assert(vf::same_bits<double>(r[q], wd) || want != want, 1);
    }
    vf_observe_u64(outside);
}

// depth 3 real-level: nearest_neighbour< clamp< shuffle< probe<2,1,size_t,float>, (1,0) > > >
static void stack_c()
{
    using P = vf::probe<2, 1, size_t, float>;
    using Sh = cb::shuffle<P, std::index_sequence<1, 0>>;
    using C = cb::clamp<Sh>;
    using N = cb::nearest_neighbour<C>;
    typename C::configuration_t c;
    for (size_t k = 0; k < 2; k++) { c.min[k] = vf_nondet_size(); c.max[k] = vf_nondet_size(); vf_assume(c.min[k] <= c.max[k]); }
    auto cc = c;
    field<N> f(make_parameter_pack(std::monostate{}, std::move(c), std::monostate{}, std::monostate{}));
    typename field<N>::view_t v(f);
    float x[2];
    size_t n[2], w[2];
    for (size_t k = 0; k < 2; k++) {
        size_t i = vf_nondet_range(0, 3);
        size_t h = vf_nondet_range(0, 2);
        // coordinates i - 0.25, i, i + 0.25 around small lattice points (rounding itself is decided by C04)
        x[k] = float(i) + (h == 0 ? -0.25f : h == 1 ? 0.0f : 0.25f);
        vf_assume(x[k] > -0.5f);
        n[k] = i;
    }
    vf_probe_reset();
    auto r = v.at(x[0], x[1]);
    size_t y[2] = {clampv(n[0], cc.min[0], cc.max[0]), clampv(n[1], cc.min[1], cc.max[1])};
    w[0] = y[1]; w[1] = y[0];
    vf_assert(vf::called_once_with<size_t>(w, 2), 1);
    vf_assert(vf::same_bits<float>(r[0], vf::uf<float, size_t>(0, w, 2, 0)), 2);
    vf_observe_u64(1);
}

extern "C" void vf_main()
{
    VF_INST;
}
