// C03: linear interpolation over the probe backend (REAL mode identity; BITS mode cell choice and lattice exactness)
#include "vf_probe.hpp"
#include <covfie/core/backend/primitive/array.hpp>
#include <covfie/core/backend/transformer/linear.hpp>
#include <covfie/core/backend/transformer/strided.hpp>
#include <covfie/core/field.hpp>
#include <covfie/core/field_view.hpp>
using namespace covfie;

template <class T> static T coord(uint64_t i, T a)
{
    if constexpr (std::is_same_v<T, float>) return vf_coord_f32(i, a);
    else return vf_coord_f64(i, a);
}
template <class T> static T unit()
{
    if constexpr (std::is_same_v<T, float>) return vf_nondet_unit_f32();
    else return vf_nondet_unit_f64();
}
template <class T> static bool eq_real(T a, T b, int ops)
{
    if constexpr (std::is_same_v<T, float>) return vf_eq_real_f32(a, b, ops);
    else return vf_eq_real_f64(a, b, ops);
}

// N-linear interpolant written as the recursive per-axis lerp (a different evaluation order from the library's)
template <size_t N, class Tc, class Ts> static Tc ref(const size_t * i, const Tc * a, size_t k, size_t * idx, size_t comp)
{
    if (k == N) return static_cast<Tc>(vf::uf<Ts, size_t>(0, idx, N, comp));
    idx[k] = i[k];
    Tc lo = ref<N, Tc, Ts>(i, a, k + 1, idx, comp);
    idx[k] = i[k] + 1;
    Tc hi = ref<N, Tc, Ts>(i, a, k + 1, idx, comp);
    return (Tc(1) - a[k]) * lo + a[k] * hi;
}

// every one of the 2^N corners i + bits(n) was queried exactly once, and nothing else
template <size_t N> static bool corners_queried(const size_t * i)
{
    if (vf_probe_calls() != (uint64_t(1) << N)) return false;
    bool all = true;
    for (size_t n = 0; n < (size_t(1) << N); n++) {
        size_t found = 0;
        for (size_t q = 0; q < (size_t(1) << N); q++) {
            bool m = true;
            for (size_t k = 0; k < N; k++) m = m && vf_probe_arg(q, k + 1) == i[k] + ((n >> k) & 1);
            found += m ? 1 : 0;
        }
        all = all && found == 1;
    }
    return all;
}

// 1. identity, exact reading: for all integers i >= 0, all real a in [0,1)^N, all real lattice values
template <size_t N, size_t M, class Tc, class Ts> static void lin_identity_h()
{
    using P = vf::probe<N, M, size_t, Ts>;
    using L = backend::linear<P, vector::vector_d<Tc, N>>;
    field<L> f;
    typename field<L>::view_t v(f);
    size_t i[N];
    Tc a[N];
    typename field<L>::coordinate_t x;
    for (size_t k = 0; k < N; k++) {
        i[k] = vf_nondet_size();
        vf_assume(i[k] < (size_t(1) << 40));
        a[k] = unit<Tc>();
        x[k] = coord<Tc>(i[k], a[k]);
    }
    vf_probe_reset();
    auto r = v.at(x);
    static_assert(std::is_same_v<std::decay_t<decltype(r[0])>, Ts>);
    vf_assert(corners_queried<N>(i), 1);
    size_t idx[N];
    for (size_t j = 0; j < M; j++) {
        Tc want = ref<N, Tc, Ts>(i, a, 0, idx, j);
        vf_assert(eq_real<Tc>(static_cast<Tc>(r[j]), want, int(N + 1 + (size_t(1) << N))), 10 + int(j));
    }
    vf_observe_u64(vf_probe_calls());
}

// range clause: the result lies within the hull of the corner values (N <= 2)
template <size_t N, class Tc, class Ts> static void lin_range_h()
{
    using P = vf::probe<N, 1, size_t, Ts>;
    using L = backend::linear<P, vector::vector_d<Tc, N>>;
    field<L> f;
    typename field<L>::view_t v(f);
    size_t i[N];
    typename field<L>::coordinate_t x;
    for (size_t k = 0; k < N; k++) {
        i[k] = vf_nondet_size();
        vf_assume(i[k] < (size_t(1) << 40));
        x[k] = coord<Tc>(i[k], unit<Tc>());
    }
    auto r = v.at(x);
    Ts lo = 0, hi = 0;
    for (size_t n = 0; n < (size_t(1) << N); n++) {
        size_t c[N];
        for (size_t k = 0; k < N; k++) c[k] = i[k] + ((n >> k) & 1);
        Ts u = vf::uf<Ts, size_t>(0, c, N, 0);
        if (n == 0 || u < lo) lo = u;
        if (n == 0 || u > hi) hi = u;
    }
    vf_assert(r[0] >= lo && r[0] <= hi, 1);
    vf_observe_u64(vf_probe_calls());
}

// 2. cell choice, bit-precise: the corners queried are floor(x_k) + bit
template <size_t N, class Tc> static void lin_cell_h()
{
    using P = vf::probe<N, 1, size_t, float>;
    using L = backend::linear<P, vector::vector_d<Tc, N>>;
    constexpr double LIM = std::is_same_v<Tc, float> ? 8388608.0 : 4503599627370496.0;
    field<L> f;
    typename field<L>::view_t v(f);
    Tc xs[N];
    typename field<L>::coordinate_t x;
    for (size_t k = 0; k < N; k++) {
        xs[k] = vf::nondet<Tc>();
        vf_assume(xs[k] >= Tc(0) && static_cast<double>(xs[k]) < LIM);
        x[k] = xs[k];
    }
    vf_probe_reset();
    auto r = v.at(x);
    (void)r;
    vf_assert(vf_probe_calls() == (uint64_t(1) << N), 1);
    size_t lo[N];
    for (size_t k = 0; k < N; k++) {
        uint64_t m = vf_probe_arg(0, k + 1);
        for (size_t q = 1; q < (size_t(1) << N); q++) {
            uint64_t t = vf_probe_arg(q, k + 1);
            m = t < m ? t : m;
        }
        lo[k] = m;
        vf_assert(m < (uint64_t)LIM, 2);
        // floor: (T)I <= x < (T)(I+1), both conversions exact below 2^23 / 2^52
        vf_assert(static_cast<Tc>(m) <= xs[k] && xs[k] < static_cast<Tc>(m + 1), 3);
    }
    vf_assert(corners_queried<N>(lo), 4);
    for (size_t k = 0; k < N; k++) vf_observe_u64(lo[k]);
}

// 2b. weights, bit-precise: with lattice value 1 at one corner and 0 at the others the result is that corner's weight,
//     the product over the axes of a_k or 1 - a_k with a_k = x_k - trunc(x_k) (exact in the coordinate precision),
//     up to a few roundings (2^-20 absolute: far above any legitimate evaluation order, far below a wrong weight)
template <size_t N, class Tc, class Ts> static void lin_weight_h()
{
    using P = vf::probe<N, 1, size_t, Ts>;
    using L = backend::linear<P, vector::vector_d<Tc, N>>;
    field<L> f;
    typename field<L>::view_t v(f);
    Tc xs[N];
    size_t lo[N];
    typename field<L>::coordinate_t x;
    // one axis carries an arbitrary coordinate; the others sit at (0 or 5) + (1/4 or 1/2) so that the product of weights
    // stays a multiplication by a constant (a product of two symbolic weights does not come back from the bit-blaster)
    size_t axis = N == 1 ? 0 : vf_nondet_range(0, N - 1);
    for (size_t k = 0; k < N; k++) {
        if (k == axis) {
            xs[k] = vf::nondet<Tc>();
            vf_assume(xs[k] >= Tc(0) && xs[k] < Tc(1048576));
        } else {
            xs[k] = Tc(vf_nondet_range(0, 1) * 5) + Tc(0.25) * Tc(vf_nondet_range(1, 2));
        }
        x[k] = xs[k];
        lo[k] = static_cast<size_t>(xs[k]);
    }
    size_t hot = vf_nondet_range(0, (size_t(1) << N) - 1);
    for (size_t n = 0; n < (size_t(1) << N); n++) {
        size_t c[N];
        for (size_t k = 0; k < N; k++) c[k] = lo[k] + ((n >> k) & 1);
        Ts u = vf::uf<Ts, size_t>(0, c, N, 0);
        vf_assume(u == (n == hot ? Ts(1) : Ts(0)));
    }
    auto r = v.at(x);
    Tc w = Tc(1);
    for (size_t k = 0; k < N; k++) {
        Tc a = xs[k] - std::trunc(xs[k]);
        w *= ((hot >> k) & 1) ? a : (Tc(1) - a);
    }
    double err = static_cast<double>(r[0]) - static_cast<double>(w);
    vf_assert(err <= 0x1p-20 && err >= -0x1p-20, 1);
    vf_observe_u64(hot);
}

// 3. lattice exactness: at the corners of a concrete cell the stored value is returned (numerically exact),
//    after conversion to the coordinate precision when that is the narrower one; all finite stored values
template <size_t N, size_t M, class Tc, class Ts, size_t I0, size_t I1, size_t I2, size_t I3> static void lin_lattice_h()
{
    using P = vf::probe<N, M, size_t, Ts>;
    using L = backend::linear<P, vector::vector_d<Tc, N>>;
    constexpr size_t base[4] = {I0, I1, I2, I3};
    field<L> f;
    typename field<L>::view_t v(f);
    size_t corner = vf_nondet_range(0, (size_t(1) << N) - 1);
    size_t i[N];
    typename field<L>::coordinate_t x;
    for (size_t k = 0; k < N; k++) {
        i[k] = base[k] + ((corner >> k) & 1);
        x[k] = static_cast<Tc>(i[k]);
    }
    // every lattice value the interpolator may touch is finite
    for (size_t n = 0; n < (size_t(1) << N); n++) {
        size_t c[N];
        for (size_t k = 0; k < N; k++) c[k] = i[k] + ((n >> k) & 1);
        for (size_t j = 0; j < M; j++) {
            Ts u = vf::uf<Ts, size_t>(0, c, N, j);
            vf_assume(u == u && u - u == Ts(0));
            Tc t = static_cast<Tc>(u);       // ... and stays finite in the coordinate precision the arithmetic is done in
            vf_assume(t - t == Tc(0));
        }
    }
    auto r = v.at(x);
    for (size_t j = 0; j < M; j++) {
        Ts stored = vf::uf<Ts, size_t>(0, i, N, j);
        Ts want = sizeof(Tc) < sizeof(Ts) ? static_cast<Ts>(static_cast<Tc>(stored)) : stored;
        vf_assert(r[j] == want || (want != want), 1);
    }
    vf_observe_u64(corner);
}

// 4. the same identity over real array storage (ties the probe abstraction to linear<strided<array>>):
//    EXT^N cells of symbolic real contents, symbolic cell index inside the grid, real fractional parts
template <size_t N, size_t M, class V, size_t EXT> static float refa(const V & v, const size_t * i, const float * a, size_t k, size_t * idx, size_t comp)
{
    if (k == N) {
        typename V::parent_t::contravariant_input_t::vector_t c;
        for (size_t q = 0; q < N; q++) c[q] = idx[q];
        return v.at(c)[comp];
    }
    idx[k] = i[k];
    float lo = refa<N, M, V, EXT>(v, i, a, k + 1, idx, comp);
    idx[k] = i[k] + 1;
    float hi = refa<N, M, V, EXT>(v, i, a, k + 1, idx, comp);
    return (1.0f - a[k]) * lo + a[k] * hi;
}

template <size_t N, size_t M, size_t EXT> static void lin_array_h()
{
    using S = backend::strided<vector::vector_d<size_t, N>, backend::array<vector::vector_d<float, M>>>;
    using L = backend::linear<S>;
    typename S::configuration_t sz;
    size_t total = 1;
    for (size_t k = 0; k < N; k++) { sz[k] = EXT; total *= EXT; }
    field<L> f(make_parameter_pack(std::monostate{}, typename S::configuration_t(sz)));
    typename S::non_owning_data_t sv(f.backend().get_backend());
    for (size_t c = 0; c < total; c++) {
        typename S::coordinate_t p;
        size_t r = c;
        for (size_t k = N; k-- > 0;) { p[k] = r % EXT; r /= EXT; }
        for (size_t j = 0; j < M; j++) sv.at(p)[j] = vf_nondet_f32();
    }
    typename field<L>::view_t v(f);
    size_t i[N];
    float a[N];
    typename field<L>::coordinate_t x;
    for (size_t k = 0; k < N; k++) {
        i[k] = vf_nondet_size();
        vf_assume(i[k] < EXT - 1);           // 0 <= x_k < extent_k - 1
        a[k] = vf_nondet_unit_f32();
        x[k] = vf_coord_f32(i[k], a[k]);
    }
    auto r = v.at(x);
    size_t idx[N];
    for (size_t j = 0; j < M; j++) vf_assert(vf_eq_real_f32(r[j], refa<N, M, decltype(sv), EXT>(sv, i, a, 0, idx, j), int(N + 1 + (size_t(1) << N))), 1);
    vf_observe_u64(total);
}

extern "C" void vf_main()
{
    VF_INST;
}
