// C05: changing representation (storage order, interpolator) preserves the field; the source is unchanged
#include "vf_probe.hpp"
#include <ostream>
#include <covfie/core/backend/primitive/array.hpp>
#include <covfie/core/backend/transformer/affine.hpp>
#include <covfie/core/backend/transformer/hilbert.hpp>
#include <covfie/core/backend/transformer/linear.hpp>
#include <covfie/core/backend/transformer/morton.hpp>
#include <covfie/core/backend/transformer/nearest_neighbour.hpp>
#include <covfie/core/backend/transformer/strided.hpp>
#include <covfie/core/field.hpp>
#include <covfie/core/field_view.hpp>
#include <covfie/core/utility/numeric.hpp>
using namespace covfie;

// LAYOUT: 0 row-major, 1 morton (bmi2 as compiled), 2 morton portable, 3 hilbert
template <int LAYOUT, size_t N, class V> struct layout_of;
template <size_t N, class V> struct layout_of<0, N, V> { using type = backend::strided<vector::vector_d<size_t, N>, backend::array<V>>; };
template <size_t N, class V> struct layout_of<1, N, V> { using type = backend::morton<vector::vector_d<size_t, N>, backend::array<V>, true>; };
template <size_t N, class V> struct layout_of<2, N, V> { using type = backend::morton<vector::vector_d<size_t, N>, backend::array<V>, false>; };
template <size_t N, class V> struct layout_of<3, N, V> { using type = backend::hilbert<vector::vector_d<size_t, N>, backend::array<V>>; };

template <class B, size_t N> static typename B::owning_data_t make_storage(const utility::nd_size<N> & s)
{
    if constexpr (std::is_constructible_v<typename B::owning_data_t, typename B::configuration_t>) {
        return typename B::owning_data_t(typename B::configuration_t(s));
    } else {
        size_t mx = 0;
        for (size_t k = 0; k < N; k++) mx = s[k] > mx ? s[k] : mx;
        size_t cells = utility::ipow(utility::round_pow2(mx), N);
        return typename B::owning_data_t(typename B::configuration_t(s), typename B::backend_t::owning_data_t(cells));
    }
}

template <class B, size_t N, class S, size_t M> static void fill(typename B::owning_data_t & o, const utility::nd_size<N> & s)
{
    typename B::non_owning_data_t v(o);
    size_t total = 1;
    for (size_t k = 0; k < N; k++) total *= s[k];
    for (size_t i = 0; i < total; i++) {
        typename B::contravariant_input_t::vector_t c;
        size_t r = i;
        for (size_t k = N; k-- > 0;) { c[k] = r % s[k]; r /= s[k]; }
        for (size_t j = 0; j < M; j++) v.at(c)[j] = vf::nondet<S>();
    }
}

template <int FROM, int TO, size_t N, class V> static void conv_body(const utility::nd_size<N> & s);

template <int FROM, int TO, size_t N, class V, size_t BND> static void conv_h()
{
    utility::nd_size<N> s;
    for (size_t k = 0; k < N; k++) s[k] = vf_nondet_range(1, BND);
    conv_body<FROM, TO, N, V>(s);
}

// fixed, larger, non-power-of-two extents (E2 ignored for N=2, E1 and E2 for N=1)
template <int FROM, int TO, size_t N, class V, size_t E0, size_t E1, size_t E2, size_t E3 = 0> static void conv_fixed_h()
{
    constexpr size_t e[4] = {E0, E1, E2, E3};
    utility::nd_size<N> s;
    for (size_t k = 0; k < N; k++) s[k] = e[k];
    conv_body<FROM, TO, N, V>(s);
}

template <int FROM, int TO, size_t N, class V> static void conv_body(const utility::nd_size<N> & s)
{
    using BF = typename layout_of<FROM, N, V>::type;
    using BT = typename layout_of<TO, N, V>::type;
    using S = typename V::type;
    constexpr size_t M = V::size;
    size_t live0 = vf_heap_live();
    {
        field<BF> f(make_parameter_pack(make_storage<BF, N>(s)));
        fill<BF, N, S, M>(const_cast<typename BF::owning_data_t &>(f.backend()), s);
        typename field<BF>::view_t vf_(f);
        typename field<BF>::coordinate_t p;
        for (size_t k = 0; k < N; k++) { size_t a = vf_nondet_size(); vf_assume(a < s[k]); p[k] = a; }
        S before[M];
        for (size_t j = 0; j < M; j++) before[j] = vf_.at(p)[j];
        field<BT> t(f);                                    // the copying conversion
        typename field<BT>::view_t vt(t);
        bool cfg = true;
        for (size_t k = 0; k < N; k++) cfg = cfg && t.backend().get_configuration()[k] == s[k] && f.backend().get_configuration()[k] == s[k];
        vf_assert(cfg, 1);                                 // same reported configuration
        typename field<BT>::coordinate_t q;
        for (size_t k = 0; k < N; k++) q[k] = p[k];
        for (size_t j = 0; j < M; j++) vf_assert(vf::same_bits<S>(vt.at(q)[j], before[j]), 2);     // same value at every lattice coordinate
        for (size_t j = 0; j < M; j++) vf_assert(vf::same_bits<S>(vf_.at(p)[j], before[j]), 3);    // source unchanged
        vf_assert(t.backend().get_backend().m_ptr.get() != f.backend().get_backend().m_ptr.get(), 4);   // own storage
        {
            // the storage records as many cells as the layout needs: copies, dumps and the debug bounds assertion trust it
            size_t need = 1, mx = 0;
            for (size_t k = 0; k < N; k++) { need *= s[k]; mx = s[k] > mx ? s[k] : mx; }
            if constexpr (TO != 0) need = utility::ipow(utility::round_pow2(mx), N);
            vf_assert(t.backend().get_backend().get_configuration()[0] == need, 8);
            // the converted field serialises without reading uninitialised cells (padding of the curve layouts included)
            std::ostream * os = vf_ostream();
            t.dump(*os);
            field<BT> copy(t);                                 // and a copy of it is a complete copy
            typename field<BT>::view_t vc(copy);
            for (size_t j = 0; j < M; j++) vf_assert(vf::same_bits<S>(vc.at(q)[j], before[j]), 9);
        }
        field<BF> back(t);                                 // converting back reproduces the original
        typename field<BF>::view_t vb(back);
        for (size_t j = 0; j < M; j++) vf_assert(vf::same_bits<S>(vb.at(p)[j], before[j]), 5);
        // independence: a write to the converted field is not seen through the source
        vt.at(q)[0] = vf::nondet<S>();
        vf_assert(vf::same_bits<S>(vf_.at(p)[0], before[0]), 6);
        vf_observe_u64(t.backend().get_backend().m_size);
    }
    vf_assert(vf_heap_live() == live0, 7);                 // nothing leaked
}

// whole-stack conversion affine<I1<L1<array>>> -> affine<I2<L2<array>>>; I: 0 nearest neighbour, 1 linear
template <int I, class L> struct interp_of;
template <class L> struct interp_of<0, L> { using type = backend::nearest_neighbour<L>; };
template <class L> struct interp_of<1, L> { using type = backend::linear<L>; };

template <int I1, int L1, int I2, int L2, size_t N, class V, size_t BND> static void stack_h()
{
    using LF = typename layout_of<L1, N, V>::type;
    using LT = typename layout_of<L2, N, V>::type;
    using SF = backend::affine<typename interp_of<I1, LF>::type>;
    using ST = backend::affine<typename interp_of<I2, LT>::type>;
    using S = typename V::type;
    constexpr size_t M = V::size;
    utility::nd_size<N> s;
    for (size_t k = 0; k < N; k++) s[k] = vf_nondet_range(1, BND);
    typename SF::configuration_t m;
    for (size_t i = 0; i < N; i++)
        for (size_t j = 0; j < N + 1; j++) m(i, j) = vf_nondet_f32();
    auto storage = make_storage<LF, N>(s);
    fill<LF, N, S, M>(storage, s);
    field<SF> f(make_parameter_pack(typename SF::configuration_t(m), std::monostate{}, std::move(storage)));
    // snapshot of the source at a symbolic lattice coordinate (the copying conversion must leave it alone)
    typename LF::contravariant_input_t::vector_t p0;
    for (size_t k = 0; k < N; k++) { size_t a = vf_nondet_size(); vf_assume(a < s[k]); p0[k] = a; }
    S snap[M];
    {
        typename LF::non_owning_data_t v0(f.backend().get_backend().get_backend());
        for (size_t j = 0; j < M; j++) snap[j] = v0.at(p0)[j];
    }
    const void * srcbuf = f.backend().get_backend().get_backend().get_backend().m_ptr.get();
    size_t live_before = vf_heap_live();
    field<ST> t(f);
    {
        typename LF::non_owning_data_t v1(f.backend().get_backend().get_backend());
        vf_assert(f.backend().get_backend().get_backend().get_backend().m_ptr.get() == srcbuf, 4);    // the source still owns its buffer
        for (size_t j = 0; j < M; j++) vf_assert(vf::same_bits<S>(v1.at(p0)[j], snap[j]), 4);         // with its contents
        for (size_t k = 0; k < N; k++) vf_assert(f.backend().get_backend().get_backend().get_configuration()[k] == s[k], 4);
        vf_assert(t.backend().get_backend().get_backend().get_backend().m_ptr.get() != srcbuf, 5);    // the target has storage of its own
        vf_assert(vf_heap_live() == live_before + 1, 5);                                              // exactly one new buffer
    }
    bool cfg = true;
    for (size_t i = 0; i < N; i++)
        for (size_t j = 0; j < N + 1; j++) cfg = cfg && vf::same_bits<float>(t.backend().get_configuration()(i, j), m(i, j));
    vf_assert(cfg, 1);
    const auto & lf = f.backend().get_backend().get_backend();
    const auto & lt = t.backend().get_backend().get_backend();
    for (size_t k = 0; k < N; k++) vf_assert(lt.get_configuration()[k] == s[k], 2);
    typename LF::non_owning_data_t vf_(lf);
    typename LT::non_owning_data_t vt(lt);
    typename LF::contravariant_input_t::vector_t p;
    typename LT::contravariant_input_t::vector_t q;
    for (size_t k = 0; k < N; k++) { size_t a = vf_nondet_size(); vf_assume(a < s[k]); p[k] = a; q[k] = a; }
    for (size_t j = 0; j < M; j++) vf_assert(vf::same_bits<S>(vt.at(q)[j], vf_.at(p)[j]), 3);
    vf_observe_u64(lt.get_backend().m_size);
}

// the MOVING conversion field<BT>(field<BF>&&): the target is the same field (configuration, every lattice value, storage of
// the right length, serialisable); the moved-from source stays destructible; nothing is leaked or freed twice
template <int FROM, int TO, size_t N, class V, size_t BND> static void conv_move_h()
{
    using BF = typename layout_of<FROM, N, V>::type;
    using BT = typename layout_of<TO, N, V>::type;
    using S = typename V::type;
    constexpr size_t M = V::size;
    utility::nd_size<N> s;
    for (size_t k = 0; k < N; k++) s[k] = vf_nondet_range(1, BND);
    size_t live0 = vf_heap_live();
    {
        field<BF> f(make_parameter_pack(make_storage<BF, N>(s)));
        fill<BF, N, S, M>(const_cast<typename BF::owning_data_t &>(f.backend()), s);
        typename field<BF>::coordinate_t p;
        for (size_t k = 0; k < N; k++) { size_t a = vf_nondet_size(); vf_assume(a < s[k]); p[k] = a; }
        S before[M];
        {
            typename field<BF>::view_t vf_(f);
            for (size_t j = 0; j < M; j++) before[j] = vf_.at(p)[j];
        }
        field<BT> t(std::move(f));
        typename field<BT>::view_t vt(t);
        bool cfg = true;
        for (size_t k = 0; k < N; k++) cfg = cfg && t.backend().get_configuration()[k] == s[k];
        vf_assert(cfg, 1);
        typename field<BT>::coordinate_t q;
        for (size_t k = 0; k < N; k++) q[k] = p[k];
        for (size_t j = 0; j < M; j++) vf_assert(vf::same_bits<S>(vt.at(q)[j], before[j]), 2);
        size_t need = 1, mx = 0;
        for (size_t k = 0; k < N; k++) { need *= s[k]; mx = s[k] > mx ? s[k] : mx; }
        if constexpr (TO != 0) need = utility::ipow(utility::round_pow2(mx), N);
        vf_assert(t.backend().get_backend().get_configuration()[0] == need, 8);
        std::ostream * os = vf_ostream();
        t.dump(*os);
        field<BF> back(t);
        typename field<BF>::view_t vb(back);
        for (size_t j = 0; j < M; j++) vf_assert(vf::same_bits<S>(vb.at(p)[j], before[j]), 5);
        vf_observe_u64(t.backend().get_backend().m_size);
    }
    vf_assert(vf_heap_live() == live0, 7);
}

template <int I1, int L1, int I2, int L2, size_t N, class V, size_t BND> static void stack_move_h()
{
    using LF = typename layout_of<L1, N, V>::type;
    using LT = typename layout_of<L2, N, V>::type;
    using SF = backend::affine<typename interp_of<I1, LF>::type>;
    using ST = backend::affine<typename interp_of<I2, LT>::type>;
    using S = typename V::type;
    constexpr size_t M = V::size;
    utility::nd_size<N> s;
    for (size_t k = 0; k < N; k++) s[k] = vf_nondet_range(1, BND);
    typename SF::configuration_t m;
    for (size_t i = 0; i < N; i++)
        for (size_t j = 0; j < N + 1; j++) m(i, j) = vf_nondet_f32();
    size_t live0 = vf_heap_live();
    {
        auto storage = make_storage<LF, N>(s);
        fill<LF, N, S, M>(storage, s);
        field<SF> f(make_parameter_pack(typename SF::configuration_t(m), std::monostate{}, std::move(storage)));
        typename LF::contravariant_input_t::vector_t p0;
        typename LT::contravariant_input_t::vector_t q0;
        for (size_t k = 0; k < N; k++) { size_t a = vf_nondet_size(); vf_assume(a < s[k]); p0[k] = a; q0[k] = a; }
        S snap[M];
        {
            typename LF::non_owning_data_t v0(f.backend().get_backend().get_backend());
            for (size_t j = 0; j < M; j++) snap[j] = v0.at(p0)[j];
        }
        field<ST> t(std::move(f));
        bool cfg = true;
        for (size_t i = 0; i < N; i++)
            for (size_t j = 0; j < N + 1; j++) cfg = cfg && vf::same_bits<float>(t.backend().get_configuration()(i, j), m(i, j));
        vf_assert(cfg, 1);
        const auto & lt = t.backend().get_backend().get_backend();
        for (size_t k = 0; k < N; k++) vf_assert(lt.get_configuration()[k] == s[k], 2);
        typename LT::non_owning_data_t vt(lt);
        for (size_t j = 0; j < M; j++) vf_assert(vf::same_bits<S>(vt.at(q0)[j], snap[j]), 3);
        vf_observe_u64(lt.get_backend().m_size);
    }
    vf_assert(vf_heap_live() == live0, 7);
}

extern "C" void vf_main()
{
    VF_INST;
}
