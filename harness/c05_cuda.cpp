// C05 (reduced assurance): host array -> CUDA device array storage, exercised on the host under a shim of the CUDA
// runtime (harness/cuda_shim): device memory is ordinary memory, so the device view can be read on the host.
#include "vf_probe.hpp"
#include <covfie/core/backend/primitive/array.hpp>
#include <covfie/core/backend/transformer/strided.hpp>
#include <covfie/core/field.hpp>
#include <covfie/core/field_view.hpp>
#include <covfie/cuda/backend/primitive/cuda_device_array.hpp>
using namespace covfie;
namespace cb = covfie::backend;
namespace cv = covfie::vector;

template <size_t N, class V, size_t BND> static void h2d_h()
{
    using H = cb::strided<cv::vector_d<size_t, N>, cb::array<V>>;
    using D = cb::strided<cv::vector_d<size_t, N>, cb::cuda_device_array<V>>;
    using S = typename V::type;
    constexpr size_t M = V::size;
    utility::nd_size<N> s;
    size_t total = 1;
    for (size_t k = 0; k < N; k++) { s[k] = vf_nondet_range(1, BND); total *= s[k]; }
    size_t live0 = vf_heap_live(), dev0 = vf_cuda_live();
    {
        field<H> f(make_parameter_pack(typename H::configuration_t(s)));
        typename field<H>::view_t hv(f);
        for (size_t i = 0; i < total; i++) {
            typename field<H>::coordinate_t c;
            size_t r = i;
            for (size_t k = N; k-- > 0;) { c[k] = r % s[k]; r /= s[k]; }
            for (size_t j = 0; j < M; j++) hv.at(c)[j] = vf::nondet<S>();
        }
        typename field<H>::coordinate_t p;
        for (size_t k = 0; k < N; k++) { size_t a = vf_nondet_size(); vf_assume(a < s[k]); p[k] = a; }
        S before[M];
        for (size_t j = 0; j < M; j++) before[j] = hv.at(p)[j];
        field<D> d(f);                                  // host -> device
        vf_assert(vf_cuda_live() == dev0 + 1, 1);       // exactly one device allocation
        bool cfg = true;
        for (size_t k = 0; k < N; k++) cfg = cfg && d.backend().get_configuration()[k] == s[k];
        vf_assert(cfg && d.backend().get_backend().get_configuration()[0] == total, 2);
        typename field<D>::view_t dv(d);
        typename field<D>::coordinate_t q;
        for (size_t k = 0; k < N; k++) q[k] = p[k];
        for (size_t j = 0; j < M; j++) vf_assert(vf::same_bits<S>(dv.at(q)[j], before[j]), 3);    // same value at every lattice coordinate
        for (size_t j = 0; j < M; j++) vf_assert(vf::same_bits<S>(hv.at(p)[j], before[j]), 4);    // source unchanged
        vf_observe_u64(total);
    }
    vf_assert(vf_heap_live() == live0 && vf_cuda_live() == dev0, 5);   // host and device storage released
}

extern "C" void vf_main()
{
    VF_INST;
}
