// C06 / C07 / C08: dump and load (round trip, pinned byte grammar, cross-type loads, rejection of bad input)
#include "vf_catalogue.hpp"
#include <stdexcept>
using namespace covfie;

static bool g_consistent = false;
template <class B> static field<B> make(size_t bound)
{
    auto o = g_consistent ? vf::blank_c<B>(bound) : vf::blank<B>(bound);
    vf::sym(o);
    return field<B>(make_parameter_pack(std::move(o)));
}

// ---------------------------------------------------------------------------------------------- C06 + C07 (grammar)
template <int K, size_t BND> static void roundtrip_h()
{
    using B = typename stack<K>::type;
    field<B> f = make<B>(BND);
    std::ostream * os = vf_ostream();
    bool threw = false;
    try {
        f.dump(*os);
        std::istream * is = vf_istream_from(os, vf_stream_len(os), VF_NEVER);
        field<B> g(*is);
        vf_assert(vf::same(f.backend(), g.backend()), 1);          // identical configuration and stored bits
        if (g_consistent) vf_assert(vf::same_lookup(f.backend(), g.backend()), 1);   // ... and identical values at every lattice coordinate
        vf_assert(vf_istream_pos(is) == vf_stream_len(os), 2);      // the reader consumes exactly what the writer produced
        std::ostream * os2 = vf_ostream();
        g.dump(*os2);
        vf_assert(vf::same_stream(os, os2), 3);                     // re-dump is byte-identical
        // C07: the byte stream is the pinned grammar, and files of the pinned grammar load
        std::ostream * os3 = vf_ostream();
        vf::spec_write(f.backend(), *os3);
        vf_assert(vf::same_stream(os, os3), 4);
        std::istream * is3 = vf_istream_from(os3, vf_stream_len(os3), VF_NEVER);
        field<B> h(*is3);
        vf_assert(vf::same(f.backend(), h.backend()), 5);
    } catch (...) {
        threw = true;
    }
    vf_assert(!threw, 6);
    vf_observe_u64(vf_stream_len(os));
}

template <int KA, int KB, size_t BND, bool NEIGHBOUR> static void cross_h();
// long payloads: exactly LEN array elements (all scalars symbolic); no forks, the payload loops run concretely
template <int K, size_t LEN> static void roundtrip_len_h()
{
    vf::g_exact_len = LEN + 1;
    roundtrip_h<K, 0>();
}
// very large payloads (exactly LEN elements, concrete zero contents): dump, reload, same size and same last element, the
// reader consumes the whole stream. Only instantiated when the IO sources mention a large block size (props.io_big_literals)
template <int K, size_t LEN> static void roundtrip_big_h()
{
    using B = typename stack<K>::type;
    vf::g_exact_len = LEN + 1;
    auto o = vf::blank<B>(0);
    field<B> f(make_parameter_pack(std::move(o)));
    std::ostream * os = vf_ostream();
    bool threw = false;
    try {
        f.dump(*os);
        std::istream * is = vf_istream_from(os, vf_stream_len(os), VF_NEVER);
        field<B> g(*is);
        const auto & a = vf::array_of(f.backend());
        const auto & b = vf::array_of(g.backend());
        vf_assert(a.m_size == LEN && b.m_size == LEN, 1);
        vf_assert(LEN == 0 || vf::same_arr(a.m_ptr[LEN - 1], b.m_ptr[LEN - 1]), 1);
        vf_assert(vf_istream_pos(is) == vf_stream_len(os), 2);
    } catch (...) {
        threw = true;
    }
    vf_assert(!threw, 6);
    vf_observe_u64(vf_stream_len(os));
}
// consistent geometry: extents 1..BND per axis and exactly the storage the library would allocate for them
template <int K, size_t BND> static void roundtrip_geo_h()
{
    g_consistent = true;
    roundtrip_h<K, BND>();
}
template <int KA, int KB, size_t LEN> static void cross_len_h()
{
    vf::g_exact_len = LEN + 1;
    cross_h<KA, KB, 0, false>();
}

// ---------------------------------------------------------------------------------------------- C07 cross-type loads
// finite and within the range of the narrower type, or the pair is not a narrowing one
template <class O1, class O2> static bool narrow_ok(const O1 & a, const O2 &)
{
    const auto & arr = vf::array_of(a);
    using S1 = typename std::decay_t<decltype(arr.m_ptr[0])>::value_type;
    using S2 = typename std::decay_t<decltype(vf::array_of(std::declval<O2>()).m_ptr[0])>::value_type;
    if constexpr (sizeof(S2) < sizeof(S1)) {
        bool ok = true;
        for (size_t i = 0; i < arr.m_size; i++)
            for (size_t j = 0; j < arr.m_ptr[i].size(); j++) {
                S1 v = arr.m_ptr[i][j];
                ok = ok && v == v && v <= S1(3.4028234663852886e38) && v >= S1(-3.4028234663852886e38);
            }
        return ok;
    } else {
        return true;
    }
}

// round-to-nearest oracle by neighbour comparison (independent of the conversion instruction): for finite d in
// float range and result f, 2d lies between pred(f)+f and f+succ(f) (sums of adjacent floats are exact in double)
static bool nearest_float(double d, float f)
{
    if (!(f == f)) return false;
    uint32_t b = vf_bits<uint32_t>(f);
    if ((b & 0x7F800000u) == 0x7F800000u) return false;     // inf/nan never results from an in-range finite value
    // neighbours in the total order of floats
    float up, dn;
    if (f == 0.0f) { up = vf_bits<float>(uint32_t(1)); dn = vf_bits<float>(uint32_t(0x80000001u)); }
    else if (b & 0x80000000u) { up = vf_bits<float>(b - 1); dn = vf_bits<float>(b + 1); }
    else { up = vf_bits<float>(b + 1); dn = vf_bits<float>(b - 1); }
    double fd = f, ud = up, dd = dn;
    bool inside = (dd + fd) <= 2 * d && 2 * d <= (fd + ud);
    if ((b & 0x7FFFFFFFu) == 0x7F7FFFFFu) inside = inside || (f > 0 ? (dd + fd) <= 2 * d : 2 * d <= (fd + ud));   // largest finite: open above
    bool tie_lo = (dd + fd) == 2 * d, tie_hi = (fd + ud) == 2 * d;
    bool even = (b & 1u) == 0;
    return inside && (!(tie_lo || tie_hi) || even);
}

template <int KA, int KB, size_t BND, bool NEIGHBOUR> static void cross_h()
{
    using A = typename stack<KA>::type;
    using B = typename stack<KB>::type;
    field<A> f = make<A>(BND);
    vf_assume(narrow_ok(f.backend(), vf::blank<B>(0)));
    std::ostream * os = vf_ostream();
    bool threw = false;
    try {
        f.dump(*os);
        std::istream * is = vf_istream_from(os, vf_stream_len(os), VF_NEVER);
        field<B> g(*is);
        vf_assert(vf::same(f.backend(), g.backend()), 1);     // configuration unchanged, values converted
        if constexpr (NEIGHBOUR) {
            const auto & a = vf::array_of(f.backend());
            const auto & b = vf::array_of(g.backend());
            bool ok = a.m_size == b.m_size;
            for (size_t i = 0; i < a.m_size && ok; i++)
                for (size_t j = 0; j < a.m_ptr[i].size(); j++) ok = ok && nearest_float(a.m_ptr[i][j], b.m_ptr[i][j]);
            vf_assert(ok, 2);
        }
        vf_assert(vf_istream_pos(is) == vf_stream_len(os), 3);
    } catch (...) {
        threw = true;
    }
    vf_assert(!threw, 4);
    vf_observe_u64(vf_stream_len(os));
}

// ---------------------------------------------------------------------------------------------- C08
// every proper prefix is rejected with an exception (never a field, abort, crash, hang, uninitialised decision)
// EXC: the caller has enabled stream exceptions (failbit | badbit): the failing read itself throws ios_base::failure
template <int K, size_t BND, bool EXC = false> static void trunc_h()
{
    using B = typename stack<K>::type;
    field<B> f = make<B>(BND);
    std::ostream * os = vf_ostream();
    f.dump(*os);
    size_t t = vf_nondet_u64();
    vf_assume(t < vf_stream_len(os));
    std::istream * is = vf_istream_from(os, t, VF_NEVER);
    if constexpr (EXC) is->exceptions(std::ios_base::failbit | std::ios_base::badbit);
    bool threw = false;
    size_t live0 = vf_heap_live();
    try {
        field<B> g(*is);
    } catch (...) {
        threw = true;
    }
    vf_assert(threw, 1);
    vf_assert(vf_heap_live() == live0, 2);      // the rejected load leaves nothing behind
    vf_observe_u64(threw);
}

// a header / footer / tag / float-width word replaced by any other value
template <int K, size_t BND> static void word_h()
{
    using B = typename stack<K>::type;
    field<B> f = make<B>(BND);
    std::ostream * os = vf_ostream();
    f.dump(*os);
    std::ostream * sp = vf_ostream();
    vf::spec_write(f.backend(), *sp);          // only for the word positions of this state
    vf_assume(vf::g_nwords > 0);
    size_t w = vf_nondet_range(0, vf::g_nwords - 1);
    size_t pos = vf::g_words[w];
    std::istream * is = vf_istream_from(os, vf_stream_len(os), VF_NEVER);
    uint32_t orig = uint32_t(vf_stream_byte(os, pos)) | uint32_t(vf_stream_byte(os, pos + 1)) << 8 |
                    uint32_t(vf_stream_byte(os, pos + 2)) << 16 | uint32_t(vf_stream_byte(os, pos + 3)) << 24;
    uint32_t repl = vf_nondet_u32();
    vf_assume(repl != orig);
    // the width word of an EMPTY array switched to the other legal width is a valid file of the other precision (C07)
    if constexpr (vf::has_array<B>()) {
        if (vf::g_wkind[w] == 1 && vf::array_of(f.backend()).m_size == 0) vf_assume(repl != 4 && repl != 8);
    }
    vf_stream_set_u32(is, pos, repl);
    bool threw = false;
    size_t live0 = vf_heap_live();
    try {
        field<B> g(*is);
    } catch (...) {
        threw = true;
    }
    vf_assert(threw, 1);
    vf_assert(vf_heap_live() == live0, 2);
    vf_observe_u64(w);
}

// a dump of stack KA loaded as the incompatible stack KB
template <int KA, int KB, size_t BND> static void pair_h()
{
    using A = typename stack<KA>::type;
    using B = typename stack<KB>::type;
    field<A> f = make<A>(BND);
    std::ostream * os = vf_ostream();
    f.dump(*os);
    std::istream * is = vf_istream_from(os, vf_stream_len(os), VF_NEVER);
    bool threw = false;
    try {
        field<B> g(*is);
    } catch (...) {
        threw = true;
    }
    vf_assert(threw, 1);
    vf_observe_u64(threw);
}

// the stream starts failing at the n-th read, for every n below the number of reads a clean load performs
template <int K, size_t BND, bool EXC = false> static void failat_h()
{
    using B = typename stack<K>::type;
    field<B> f = make<B>(BND);
    std::ostream * os = vf_ostream();
    f.dump(*os);
    size_t reads;
    {
        std::istream * is0 = vf_istream_from(os, vf_stream_len(os), VF_NEVER);
        field<B> g0(*is0);
        reads = vf_istream_nreads(is0);
    }
    size_t n = vf_nondet_u64();
    vf_assume(n < reads);
    std::istream * is = vf_istream_from(os, vf_stream_len(os), n);
    if constexpr (EXC) is->exceptions(std::ios_base::failbit | std::ios_base::badbit);
    bool threw = false;
    size_t live0 = vf_heap_live();
    try {
        field<B> g(*is);
    } catch (...) {
        threw = true;
    }
    vf_assert(threw, 1);
    vf_assert(vf_heap_live() == live0, 2);
    vf_observe_u64(reads);
}

extern "C" void vf_main()
{
    VF_INST;
}
