// C09: affine algebra and the affine layer (REAL mode: exact reading of the floating-point program; factories in BITS)
#include "vf_probe.hpp"
#include <covfie/core/algebra/affine.hpp>
#include <covfie/core/backend/transformer/affine.hpp>
#include <covfie/core/field.hpp>
#include <covfie/core/field_view.hpp>
using namespace covfie;

template <class T> static bool eq_real(T a, T b, int ops)
{
    if constexpr (std::is_same_v<T, float>) return vf_eq_real_f32(a, b, ops);
    else return vf_eq_real_f64(a, b, ops);
}

template <size_t N, class T> static algebra::affine<N, T> any_affine()
{
    array::array<array::array<T, N + 1>, N> e;
    for (size_t i = 0; i < N; i++)
        for (size_t j = 0; j < N + 1; j++) e[i][j] = vf::nondet<T>();
    return algebra::affine<N, T>(algebra::matrix<N, N + 1, T>(e));
}
template <size_t N, class T> static algebra::vector<N, T> any_vector()
{
    algebra::vector<N, T> v;
    for (size_t i = 0; i < N; i++) v(i) = vf::nondet<T>();
    return v;
}

// A * x == A x + t componentwise
template <size_t N, class T> static void apply_h()
{
    auto A = any_affine<N, T>();
    auto x = any_vector<N, T>();
    auto y = A * x;
    for (size_t i = 0; i < N; i++) {
        T s = A(i, N);
        for (size_t k = 0; k < N; k++) s += A(i, k) * x(k);
        vf_assert(eq_real<T>(y(i), s, int(2 * N)), 1);
    }
    vf_observe_u64(N);
}

// (A*B)*v == A*(B*v)
template <size_t N, class T> static void compose_h()
{
    auto A = any_affine<N, T>(), B = any_affine<N, T>();
    auto v = any_vector<N, T>();
    auto l = (A * B) * v;
    auto r = A * (B * v);
    for (size_t i = 0; i < N; i++) vf_assert(eq_real<T>(l(i), r(i), int(4 * N + 4)), 1);
    // the product's matrix: rotation part A_r B_r, translation A_r t_B + t_A
    auto AB = A * B;
    for (size_t i = 0; i < N; i++) {
        for (size_t j = 0; j < N; j++) {
            T s = 0;
            for (size_t k = 0; k < N; k++) s += A(i, k) * B(k, j);
            vf_assert(eq_real<T>(AB(i, j), s, int(2 * N + 2)), 2);
        }
        T t = A(i, N);
        for (size_t k = 0; k < N; k++) t += A(i, k) * B(k, N);
        vf_assert(eq_real<T>(AB(i, N), t, int(2 * N + 2)), 3);
    }
    vf_observe_u64(N);
}

// left-nested products of LEN transforms applied to a vector equal the nested applications
template <size_t N, class T, size_t LEN> static void chain_h()
{
    algebra::affine<N, T> A[LEN];
    for (size_t q = 0; q < LEN; q++) A[q] = any_affine<N, T>();
    auto v = any_vector<N, T>();
    algebra::affine<N, T> P = A[0];
    for (size_t q = 1; q < LEN; q++) P = P * A[q];
    auto l = P * v;
    auto r = v;
    for (size_t q = LEN; q-- > 0;) r = A[q] * r;
    for (size_t i = 0; i < N; i++) vf_assert(eq_real<T>(l(i), r(i), int(LEN * (2 * N + 2))), 1);
    vf_observe_u64(LEN);
}

// translation / scaling / identity have their textbook matrices (exact constants, BITS mode)
template <size_t N, class T> static void factories_h()
{
    T a[4];
    for (size_t k = 0; k < 4; k++) a[k] = vf::nondet<T>();
    algebra::affine<N, T> tr, sc;
    if constexpr (N == 1) { tr = algebra::affine<N, T>::translation(a[0]); sc = algebra::affine<N, T>::scaling(a[0]); }
    if constexpr (N == 2) { tr = algebra::affine<N, T>::translation(a[0], a[1]); sc = algebra::affine<N, T>::scaling(a[0], a[1]); }
    if constexpr (N == 3) { tr = algebra::affine<N, T>::translation(a[0], a[1], a[2]); sc = algebra::affine<N, T>::scaling(a[0], a[1], a[2]); }
    if constexpr (N == 4) { tr = algebra::affine<N, T>::translation(a[0], a[1], a[2], a[3]); sc = algebra::affine<N, T>::scaling(a[0], a[1], a[2], a[3]); }
    algebra::affine<N, T> id(algebra::matrix<N, N + 1, T>::identity());
    for (size_t i = 0; i < N; i++)
        for (size_t j = 0; j < N + 1; j++) {
            T one = 1, zero = 0;
            vf_assert(vf::same_bits<T>(tr(i, j), j == N ? a[i] : (i == j ? one : zero)), 1);
            vf_assert(vf::same_bits<T>(sc(i, j), i == j ? a[i] : zero), 2);
            vf_assert(vf::same_bits<T>(id(i, j), i == j ? one : zero), 3);
        }
    vf_observe_u64(N);
}

// the factories called with a MIXED-type argument pack (each argument converts to T on its own: no detour through a common type).
// clang treats the narrowing inside the library's braces as an error by default; the unit is compiled with -Wno-c++11-narrowing,
// which is what g++ does for non-constant operands.
template <class T> static void factories_mixed_h()
{
    int32_t i = vf::nondet<int32_t>();
    uint32_t u = vf::nondet<uint32_t>();
    float f = vf::nondet<float>();
    auto t2 = algebra::affine<2, T>::translation(i, u);
    auto s2 = algebra::affine<2, T>::scaling(i, u);
    vf_assert(vf::same_bits<T>(t2(0, 2), static_cast<T>(i)) && vf::same_bits<T>(t2(1, 2), static_cast<T>(u)), 1);
    vf_assert(vf::same_bits<T>(s2(0, 0), static_cast<T>(i)) && vf::same_bits<T>(s2(1, 1), static_cast<T>(u)), 2);
    auto t3 = algebra::affine<3, T>::translation(i, f, u);
    auto s3 = algebra::affine<3, T>::scaling(u, i, f);
    vf_assert(vf::same_bits<T>(t3(0, 3), static_cast<T>(i)) && vf::same_bits<T>(t3(1, 3), static_cast<T>(f)) && vf::same_bits<T>(t3(2, 3), static_cast<T>(u)), 3);
    vf_assert(vf::same_bits<T>(s3(0, 0), static_cast<T>(u)) && vf::same_bits<T>(s3(1, 1), static_cast<T>(i)) && vf::same_bits<T>(s3(2, 2), static_cast<T>(f)), 4);
    vf_assert(vf::same_bits<T>(t2(0, 0), T(1)) && vf::same_bits<T>(t2(0, 1), T(0)) && vf::same_bits<T>(s3(0, 1), T(0)) && vf::same_bits<T>(s3(2, 3), T(0)), 5);
    vf_observe_u64(2);
}

// the layer affine<probe> queries the probe once at A x + t and returns its value
template <size_t N, size_t M, class T> static void layer_h()
{
    using P = vf::probe<N, M, T, T>;
    using L = backend::affine<P>;
    auto A = any_affine<N, T>();
    typename field<L>::coordinate_t c;
    T x[N], e[N];
    for (size_t k = 0; k < N; k++) { x[k] = vf::nondet<T>(); c[k] = x[k]; }
    field<L> f(make_parameter_pack(typename L::configuration_t(A), std::monostate{}));
    typename field<L>::view_t v(f);
    vf_probe_reset();
    auto r = v.at(c);
    vf_assert(vf_probe_calls() == 1, 1);
    for (size_t i = 0; i < N; i++) {
        T s = A(i, N);
        for (size_t k = 0; k < N; k++) s += A(i, k) * x[k];
        e[i] = s;
        T got = static_cast<T>(vf_probe_arg_r(0, i + 1));
        vf_assert(eq_real<T>(got, s, int(2 * N)), 2);
    }
    // value returned is the probe's at the coordinate it was asked for
    T q[N];
    for (size_t i = 0; i < N; i++) q[i] = static_cast<T>(vf_probe_arg_r(0, i + 1));
    for (size_t j = 0; j < M; j++) vf_assert(eq_real<T>(r[j], vf::uf<T, T>(0, q, N, j), 0), 3);
    // the configuration reads back
    for (size_t i = 0; i < N; i++)
        for (size_t j = 0; j < N + 1; j++) vf_assert(eq_real<T>(f.backend().get_configuration()(i, j), A(i, j), 0), 4);
    vf_observe_u64(vf_probe_calls());
}

extern "C" void vf_main()
{
    VF_INST;
}
