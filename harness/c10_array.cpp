// C10: clamp over array storage: with a box inside the extents no lookup can leave the field's storage,
// for every coordinate whatsoever; clamp below and above a linear interpolator. Extents are unbounded (INT/REAL mode).
#include "vf_probe.hpp"
#include <covfie/core/backend/primitive/array.hpp>
#include <covfie/core/backend/transformer/clamp.hpp>
#include <covfie/core/backend/transformer/linear.hpp>
#include <covfie/core/backend/transformer/strided.hpp>
#include <covfie/core/field_view.hpp>
#include <limits>
using namespace covfie;
namespace cb = covfie::backend;
namespace cv = covfie::vector;

template <class T> static T coordr(uint64_t i, T a)
{
    if constexpr (std::is_same_v<T, float>) return vf_coord_f32(i, a);
    else return vf_coord_f64(i, a);
}

// symbolic extents with prod(s) * sizeof(E) < 2^63, returns the cell count
template <size_t N, class E> static size_t extents(size_t * s)
{
    size_t prod = 1;
    for (size_t k = 0; k < N; k++) {
        s[k] = vf_nondet_size();
        vf_assume(s[k] >= 1);
        size_t np;
        vf_assume(!__builtin_mul_overflow(prod, s[k], &np));
        prod = np;
    }
    size_t bytes;
    vf_assume(!__builtin_mul_overflow(prod, sizeof(E), &bytes));
    vf_assume(bytes < (size_t(1) << 63));
    return prod;
}

// clamp<strided<array>>: integer coordinates of type C, ALL coordinate values
template <size_t N, class C, class V> static void arrayclamp_h()
{
    using S = cb::strided<cv::vector_d<C, N>, cb::array<V>>;
    using L = cb::clamp<S>;
    using NO = typename L::non_owning_data_t;
    using E = typename cb::array<V>::vector_t;
    size_t s[N];
    size_t cells = extents<N, E>(s);
    E * base = static_cast<E *>(vf_buffer(cells * sizeof(E)));
    // view built from raw bytes: m_min[N], m_max[N] (C), then the strided view {sizes[N], {m_size, m_ptr}}
    struct raw_t { C lo[N]; C hi[N]; alignas(8) size_t sizes[N]; size_t m_size; E * m_ptr; } raw;
    static_assert(sizeof(raw_t) == sizeof(NO), "view layout changed");
    typename L::contravariant_input_t::vector_t c;
    for (size_t k = 0; k < N; k++) {
        raw.lo[k] = vf::nondet<C>();
        raw.hi[k] = vf::nondet<C>();
        vf_assume(raw.lo[k] <= raw.hi[k]);
        vf_assume(raw.lo[k] >= 0 && static_cast<size_t>(raw.hi[k]) < s[k]);     // the box lies inside the extents
        raw.sizes[k] = s[k];
        c[k] = vf::nondet<C>();                                                  // any coordinate whatsoever
    }
    raw.m_size = cells;
    raw.m_ptr = base;
    const NO & v = *reinterpret_cast<const NO *>(&raw);
    E & r = v.at(c);
    size_t off = vf_ptrdiff(&r, base);
    vf_assert(off % sizeof(E) == 0 && off / sizeof(E) < cells, 1);
    vf_observe_u64(off);
}

// linear<clamp<strided<array>>>: any real coordinate x_k >= 0, every corner read stays inside the storage
// (the reads themselves carry the engine's bounds VCs; the buffer contents are arbitrary)
template <size_t N, class V, class Tc> static void lin_below_h()
{
    using S = cb::strided<cv::vector_d<size_t, N>, cb::array<V>>;
    using C = cb::clamp<S>;
    using L = cb::linear<C, cv::vector_d<Tc, N>>;
    using NO = typename L::non_owning_data_t;
    using E = typename cb::array<V>::vector_t;
    size_t s[N];
    size_t cells = extents<N, E>(s);
    E * base = static_cast<E *>(vf_buffer(cells * sizeof(E)));
    struct raw_t { size_t lo[N]; size_t hi[N]; size_t sizes[N]; size_t m_size; E * m_ptr; } raw;
    static_assert(sizeof(raw_t) == sizeof(NO), "view layout changed");
    typename L::contravariant_input_t::vector_t x;
    for (size_t k = 0; k < N; k++) {
        raw.lo[k] = vf_nondet_size();
        raw.hi[k] = vf_nondet_size();
        vf_assume(raw.lo[k] <= raw.hi[k] && raw.hi[k] < s[k]);
        raw.sizes[k] = s[k];
        size_t i = vf_nondet_size();
        vf_assume(i < (size_t(1) << 52));
        Tc a = std::is_same_v<Tc, float> ? Tc(vf_nondet_unit_f32()) : Tc(vf_nondet_unit_f64());
        x[k] = coordr<Tc>(i, a);
    }
    raw.m_size = cells;
    raw.m_ptr = base;
    const NO & v = *reinterpret_cast<const NO *>(&raw);
    auto r = v.at(x);          // 2^N reads, each with a bounds VC
    for (size_t j = 0; j < V::size; j++) vf_observe_f64(static_cast<double>(r[j]));     // keeps the reads alive
    vf_assert(true, 1);
    vf_observe_u64(N);
}

// clamp<linear<strided<array>>> with a real box inside linear's domain 0 <= lo, hi < s-1: any coordinate
template <size_t N, class V, class Tc> static void lin_above_h()
{
    using S = cb::strided<cv::vector_d<size_t, N>, cb::array<V>>;
    using Li = cb::linear<S, cv::vector_d<Tc, N>>;
    using L = cb::clamp<Li>;
    using NO = typename L::non_owning_data_t;
    using E = typename cb::array<V>::vector_t;
    size_t s[N];
    size_t cells = extents<N, E>(s);
    E * base = static_cast<E *>(vf_buffer(cells * sizeof(E)));
    struct raw_t { Tc lo[N]; Tc hi[N]; alignas(8) size_t sizes[N]; size_t m_size; E * m_ptr; } raw;
    static_assert(sizeof(raw_t) == sizeof(NO), "view layout changed");
    typename L::contravariant_input_t::vector_t x;
    for (size_t k = 0; k < N; k++) {
        vf_assume(s[k] >= 2 && s[k] < (size_t(1) << 40));
        raw.lo[k] = vf::nondet<Tc>();
        raw.hi[k] = vf::nondet<Tc>();
        vf_assume(raw.lo[k] >= Tc(0) && raw.lo[k] <= raw.hi[k] && raw.hi[k] < static_cast<Tc>(s[k] - 1));
        raw.sizes[k] = s[k];
        x[k] = vf::nondet<Tc>();       // any real coordinate
    }
    raw.m_size = cells;
    raw.m_ptr = base;
    const NO & v = *reinterpret_cast<const NO *>(&raw);
    auto r = v.at(x);
    for (size_t j = 0; j < V::size; j++) vf_observe_f64(static_cast<double>(r[j]));
    vf_assert(true, 1);
    vf_observe_u64(N);
}

extern "C" void vf_main()
{
    VF_INST;
}
