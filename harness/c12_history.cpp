// C12: fields stay independent values under copy / move / assign / convert / dump-load / destroy
#include "vf_state.hpp"
#include <new>
using namespace covfie;
namespace cb = covfie::backend;
namespace cv = covfie::vector;

template <int T> struct ftype;
template <> struct ftype<0> { using type = cb::strided<cv::size2, cb::array<cv::float1>>; using other = cb::morton<cv::size2, cb::array<cv::float1>, false>; };
template <> struct ftype<1> { using type = cb::morton<cv::size2, cb::array<cv::float1>, false>; using other = cb::strided<cv::size2, cb::array<cv::float1>>; };
// same layout under both interpolators: a conversion that steals from its source goes through the storage's own move constructor
template <> struct ftype<3> { using type = cb::affine<cb::linear<cb::strided<cv::size2, cb::array<cv::float1>>>>; using other = cb::affine<cb::nearest_neighbour<cb::strided<cv::size2, cb::array<cv::float1>>>>; };
template <> struct ftype<2> { using type = cb::affine<cb::linear<cb::strided<cv::size2, cb::array<cv::float1>>>>; using other = cb::affine<cb::nearest_neighbour<cb::morton<cv::size2, cb::array<cv::float1>, false>>>; };

enum { EMPTY = 0, LIVE = 1, MOVED = 2 };
enum { OP_COPY_CONSTRUCT, OP_MOVE_CONSTRUCT, OP_COPY_ASSIGN, OP_MOVE_ASSIGN, OP_WRITE, OP_DESTROY, OP_CONVERT, OP_DUMPLOAD, OP_LOADFAIL, OP_CONVERT_MOVE, OP_CREATE, NOPS };

// the layout layer (integer coordinates, array storage) of a stack
template <class O> static auto & layout_of_data(O & o)
{
    using B = typename O::parent_t;
    constexpr vf::kind k = vf::kind_of<B>::value;
    if constexpr (k == vf::K_STRIDED || k == vf::K_MORTON || k == vf::K_HILBERT) return o;
    else return layout_of_data(o.get_backend());
}

template <class B, class Other> struct world {
    using F = field<B>;
    static constexpr size_t NS = 3;
    alignas(F) unsigned char mem[NS][sizeof(F)];
    int state[NS];
    bool from_moved[NS];   // slot is a copy of a moved-from slot: unspecified value, but initialised storage
    size_t ex[NS][2];
    uint32_t val[NS][4];       // plain-array model: val[slot][x * ey + y]
    uint32_t mat[NS][6];       // stacks with an affine layer on top: the 2x3 matrix is part of the field's value
    size_t live0;

    F & at(size_t i) { return *std::launder(reinterpret_cast<F *>(mem[i])); }

    template <class LB> static typename LB::owning_data_t storage(size_t a, size_t b)
    {
        typename LB::configuration_t s{a, b};
        if constexpr (std::is_constructible_v<typename LB::owning_data_t, typename LB::configuration_t>) {
            return typename LB::owning_data_t(s);
        } else {
            size_t mx = a > b ? a : b;
            size_t cells = utility::ipow(utility::round_pow2(mx), size_t(2));
            return typename LB::owning_data_t(s, typename LB::backend_t::owning_data_t(cells));
        }
    }

    template <class BB> static typename BB::owning_data_t build(size_t a, size_t b)
    {
        constexpr vf::kind k = vf::kind_of<BB>::value;
        if constexpr (k == vf::K_STRIDED || k == vf::K_MORTON || k == vf::K_HILBERT) return storage<BB>(a, b);
        else return typename BB::owning_data_t(typename BB::configuration_t{}, build<typename BB::backend_t>(a, b));
    }

    void create(size_t i, size_t a, size_t b)
    {
        new (mem[i]) F(make_parameter_pack(build<B>(a, b)));
        ex[i][0] = a; ex[i][1] = b;
        auto & lay = layout_of_data(const_cast<typename B::owning_data_t &>(at(i).backend()));
        using LB = typename std::decay_t<decltype(lay)>::parent_t;
        typename LB::non_owning_data_t v(lay);
        for (size_t x = 0; x < a; x++)
            for (size_t y = 0; y < b; y++) {
                uint32_t bits = vf_nondet_u32();
                val[i][x * b + y] = bits;
                v.at({x, y})[0] = vf_bits<float>(bits);
            }
        if constexpr (vf::kind_of<B>::value == vf::K_AFFINE) {
            auto & o = const_cast<typename B::owning_data_t &>(at(i).backend());
            for (size_t r = 0; r < 2; r++)
                for (size_t c = 0; c < 3; c++) {
                    mat[i][r * 3 + c] = vf_nondet_u32();
                    o.m_transform(r, c) = vf_bits<float>(mat[i][r * 3 + c]);
                }
        }
        state[i] = LIVE;
    }

    void copy_model(size_t dst, size_t src)
    {
        if (dst == src) return;
        ex[dst][0] = ex[src][0]; ex[dst][1] = ex[src][1];
        for (size_t k = 0; k < 4; k++) val[dst][k] = val[src][k];
        for (size_t k = 0; k < 6; k++) mat[dst][k] = mat[src][k];
    }

    const float * buffer(size_t i)
    {
        auto & lay = layout_of_data(const_cast<typename B::owning_data_t &>(at(i).backend()));
        return reinterpret_cast<const float *>(lay.get_backend().m_ptr.get());
    }

    // every live slot equals its model at every coordinate, live buffers are pairwise distinct, nothing leaked
    void check(int base)
    {
        size_t nlive = 0;
        for (size_t i = 0; i < NS; i++) {
            if (state[i] != LIVE) continue;
            nlive++;
            auto & lay = layout_of_data(const_cast<typename B::owning_data_t &>(at(i).backend()));
            using LB = typename std::decay_t<decltype(lay)>::parent_t;
            vf_assert(lay.get_configuration()[0] == ex[i][0] && lay.get_configuration()[1] == ex[i][1], base + 1);
            {
                // the storage records as many cells as the layout needs (row-major: the product; curves: enclosing square)
                size_t need = ex[i][0] * ex[i][1];
                if constexpr (vf::kind_of<LB>::value != vf::K_STRIDED) {
                    size_t mx = ex[i][0] > ex[i][1] ? ex[i][0] : ex[i][1];
                    need = utility::ipow(utility::round_pow2(mx), size_t(2));
                }
                vf_assert(lay.get_backend().get_configuration()[0] == need, base + 1);
            }
            typename LB::non_owning_data_t v(lay);
            bool ok = true;
            for (size_t x = 0; x < ex[i][0]; x++)
                for (size_t y = 0; y < ex[i][1]; y++) ok = ok && vf_bits<uint32_t>(v.at({x, y})[0]) == val[i][x * ex[i][1] + y];
            if constexpr (vf::kind_of<B>::value == vf::K_AFFINE) {
                auto t = at(i).backend().get_configuration();
                for (size_t r = 0; r < 2; r++)
                    for (size_t c = 0; c < 3; c++) ok = ok && vf_bits<uint32_t>(static_cast<float>(t(r, c))) == mat[i][r * 3 + c];
            }
            vf_assert(ok, base + 2);
            for (size_t j = i + 1; j < NS; j++)
                if (state[j] == LIVE) vf_assert(buffer(i) != buffer(j), base + 3);
        }
        // a moved-from slot is valid but unspecified: it may have kept storage (the converting "move" of the pinned tree copies);
        // whatever it holds is its own
        size_t kept = 0;
        for (size_t i = 0; i < NS; i++) {
            if (state[i] != MOVED || buffer(i) == nullptr) continue;
            kept++;
            if (from_moved[i]) {
                // a copy of a moved-from slot: every cell it records is initialised (a branch on each: UNINIT-DECISION otherwise)
                auto & lay = layout_of_data(const_cast<typename B::owning_data_t &>(at(i).backend()));
                size_t n = lay.get_backend().get_configuration()[0];
                vf_assert(n <= 4, base + 4);
                const uint32_t * raw = reinterpret_cast<const uint32_t *>(buffer(i));
                for (size_t k = 0; k < n && k < 4; k++)
                    if (raw[k] == 0x7fc12345u) vf_observe_u64(k);
            }
            for (size_t j = 0; j < NS; j++)
                if (j != i && state[j] != EMPTY && buffer(j) != nullptr) vf_assert(buffer(i) != buffer(j), base + 3);
        }
        vf_assert(vf_heap_live() == live0 + nlive + kept, base + 4);
    }

    void apply(size_t op, size_t a, size_t b)
    {
        if (op != OP_WRITE && op != OP_COPY_ASSIGN) from_moved[a] = false;
        switch (op) {
        case OP_CREATE:
            vf_assume(state[a] == EMPTY);
            create(a, vf_nondet_range(1, 2), vf_nondet_range(1, 2));
            break;
        case OP_COPY_CONSTRUCT:
            // the source may be moved-from (the library copies a null buffer as "recorded size, zero cells"): the copy is then
            // itself of unspecified value, but owns whatever it holds and every cell it records is initialised
            vf_assume(state[a] == EMPTY && state[b] != EMPTY);
            new (mem[a]) F(at(b));
            copy_model(a, b); state[a] = state[b]; from_moved[a] = state[b] == MOVED;
            break;
        case OP_MOVE_CONSTRUCT:
            vf_assume(state[a] == EMPTY && state[b] == LIVE);
            new (mem[a]) F(std::move(at(b)));
            copy_model(a, b); state[a] = LIVE; state[b] = MOVED;
            break;
        case OP_COPY_ASSIGN:
            vf_assume(state[a] != EMPTY && state[b] != EMPTY);      // a == b: self-assignment; b may be moved-from (see above)
            at(a) = at(b);
            if (a != b) { copy_model(a, b); from_moved[a] = state[b] == MOVED; state[a] = state[b]; }
            break;
        case OP_MOVE_ASSIGN:
            vf_assume(state[a] != EMPTY && state[b] == LIVE);
            at(a) = std::move(at(b));
            // a == b: move self-assignment keeps the value (as the defaulted members over unique_ptr do)
            if (a != b) { copy_model(a, b); state[a] = LIVE; state[b] = MOVED; }
            break;
        case OP_WRITE: {
            vf_assume(state[a] == LIVE);
            size_t x = vf_nondet_size(), y = vf_nondet_size();
            vf_assume(x < ex[a][0] && y < ex[a][1]);
            uint32_t bits = vf_nondet_u32();
            auto & lay = layout_of_data(const_cast<typename B::owning_data_t &>(at(a).backend()));
            using LB = typename std::decay_t<decltype(lay)>::parent_t;
            typename LB::non_owning_data_t v(lay);
            v.at({x, y})[0] = vf_bits<float>(bits);
            for (size_t k = 0; k < 4; k++)
                if (k == x * ex[a][1] + y) val[a][k] = bits;
            break;
        }
        case OP_DESTROY:
            vf_assume(state[a] != EMPTY);
            at(a).~F();
            state[a] = EMPTY;
            break;
        case OP_CONVERT: {
            vf_assume(state[a] == EMPTY && state[b] == LIVE);
            convert(a, b);
            copy_model(a, b); state[a] = LIVE;
            break;
        }
        case OP_CONVERT_MOVE: {
            // slot a := slot b through the other representation by MOVING conversions; b is left moved-from
            vf_assume(state[a] == EMPTY && state[b] == LIVE);
            convert_move(a, b);
            copy_model(a, b); state[a] = LIVE; state[b] = MOVED;
            break;
        }
        case OP_DUMPLOAD: {
            vf_assume(state[a] == EMPTY && state[b] == LIVE);
            std::ostream * os = vf_ostream();
            at(b).dump(*os);
            std::istream * is = vf_istream_from(os, vf_stream_len(os), VF_NEVER);
            new (mem[a]) F(*is);
            copy_model(a, b); state[a] = LIVE;
            break;
        }
        case OP_LOADFAIL: {
            // a load from a truncated dump of slot b into the empty slot a: must throw and leave everything as it was
            vf_assume(state[a] == EMPTY && state[b] == LIVE);
            std::ostream * os = vf_ostream();
            at(b).dump(*os);
            size_t t = vf_nondet_u64();
            vf_assume(t < vf_stream_len(os));
            std::istream * is = vf_istream_from(os, t, VF_NEVER);
            bool threw = false;
            try {
                new (mem[a]) F(*is);
            } catch (...) {
                threw = true;
            }
            vf_assert(threw, 80);
            break;
        }
        default:
            vf_assume(false);
        }
    }

    template <class Oth> void convert_via(size_t a, size_t b)
    {
        field<Oth> tmp(at(b));           // into the other representation ...
        new (mem[a]) F(tmp);               // ... and back
    }
    void convert(size_t a, size_t b) { convert_via<Other>(a, b); }
    void convert_move(size_t a, size_t b)
    {
        field<Other> tmp(std::move(at(b)));
        new (mem[a]) F(std::move(tmp));
    }

    void teardown()
    {
        for (size_t i = 0; i < NS; i++)
            if (state[i] != EMPTY) { at(i).~F(); state[i] = EMPTY; }
        vf_assert(vf_heap_live() == live0, 90);
    }
};


// inductive step: arbitrary pre-state over NSLOTS slots, one operation OP with symbolic slot arguments
template <int T, int OP, size_t NSLOTS> static void step_h()
{
    using B = typename ftype<T>::type;
    using W = world<B, typename ftype<T>::other>;
    static W w;
    w.live0 = vf_heap_live();
    for (size_t i = 0; i < W::NS; i++) { w.state[i] = EMPTY; w.from_moved[i] = false; }
    for (size_t i = 0; i < NSLOTS; i++) {
        size_t st = vf_nondet_range(0, 2);
        if (st == EMPTY) continue;
        w.create(i, vf_nondet_range(1, 2), vf_nondet_range(1, 2));
        if (st == MOVED) {
            typename W::F tmp(std::move(w.at(i)));      // leaves slot i moved-from; tmp dies here
            w.state[i] = MOVED;
        }
    }
    // representation invariant of the pre-state (one moved-from slot holds no storage)
    size_t a = vf_nondet_range(0, NSLOTS - 1), b = vf_nondet_range(0, NSLOTS - 1);
    w.apply(OP, a, b);
    w.check(0);
    w.teardown();
    vf_observe_u64(a * 4 + b);
}

// bounded histories from empty slots with symbolic operation choice
template <int T, size_t LEN, size_t NSLOTS> static void hist_h()
{
    using B = typename ftype<T>::type;
    using W = world<B, typename ftype<T>::other>;
    static W w;
    w.live0 = vf_heap_live();
    for (size_t i = 0; i < W::NS; i++) { w.state[i] = EMPTY; w.from_moved[i] = false; }
    for (size_t step = 0; step < LEN; step++) {
        size_t op = step == 0 ? size_t(OP_CREATE) : vf_nondet_range(0, NOPS - 1);
        size_t a = vf_nondet_range(0, NSLOTS - 1), b = vf_nondet_range(0, NSLOTS - 1);
        w.apply(op, a, b);
        w.check(int(10 * (step + 1)));
    }
    w.teardown();
    vf_observe_u64(LEN);
}

extern "C" void vf_main()
{
    VF_INST;
}
