// C16: a lookup through a view writes nothing that another thread can see, touches no mutable global / thread-local /
// atomic state, and is a function of (view, buffer, coordinate) only; hence lookups never conflict, for any number of
// threads and any schedule. Writers to distinct coordinates: disjoint byte ranges (C01 injectivity, same units).
#include "vf_state.hpp"
using namespace covfie;
namespace cb = covfie::backend;
namespace cv = covfie::vector;

template <int LAYOUT, size_t N, class V> struct layout_of;
template <size_t N, class V> struct layout_of<0, N, V> { using type = cb::strided<cv::vector_d<size_t, N>, cb::array<V>>; };
template <size_t N, class V> struct layout_of<1, N, V> { using type = cb::morton<cv::vector_d<size_t, N>, cb::array<V>, true>; };
template <size_t N, class V> struct layout_of<2, N, V> { using type = cb::morton<cv::vector_d<size_t, N>, cb::array<V>, false>; };
template <size_t N, class V> struct layout_of<3, N, V> { using type = cb::hilbert<cv::vector_d<size_t, N>, cb::array<V>>; };
// INTERP: 0 none, 1 nearest neighbour, 2 linear
template <int I, class L> struct interp_of { using type = L; };
template <class L> struct interp_of<1, L> { using type = cb::nearest_neighbour<L>; };
template <class L> struct interp_of<2, L> { using type = cb::linear<L>; };

template <class B> struct ctx_t {
    const typename field<B>::view_t * view;
    typename field<B>::coordinate_t c;
    uint64_t bits[4];
};

template <class B> static void lookup(void * p)
{
    auto * x = static_cast<ctx_t<B> *>(p);
    auto r = x->view->at(x->c);
#ifndef VF_NATIVE
    for (size_t j = 0; j < B::covariant_output_t::dimensions; j++) x->bits[j] = vf_bits<uint32_t>(static_cast<float>(r[j]));
#else
    (void)r;       // natively the threads share ctx: only the library's own accesses may be visible to TSan
#endif
}

template <int LAYOUT, int INTERP, size_t N, class V, size_t EXT> static void footprint_h()
{
    using LB = typename layout_of<LAYOUT, N, V>::type;
    using B = typename interp_of<INTERP, LB>::type;
    constexpr size_t M = V::size;
    // a field with EXT^N cells of symbolic contents
    utility::nd_size<N> s;
    size_t total = 1;
    for (size_t k = 0; k < N; k++) { s[k] = EXT; total *= EXT; }
    size_t mx = EXT;
    typename LB::owning_data_t lay = [&] {
        if constexpr (std::is_constructible_v<typename LB::owning_data_t, typename LB::configuration_t>) return typename LB::owning_data_t(typename LB::configuration_t(s));
        else return typename LB::owning_data_t(typename LB::configuration_t(s), typename LB::backend_t::owning_data_t(utility::ipow(utility::round_pow2(mx), N)));
    }();
    {
        typename LB::non_owning_data_t v(lay);
        for (size_t i = 0; i < total; i++) {
            typename LB::contravariant_input_t::vector_t c;
            size_t r = i;
            for (size_t k = N; k-- > 0;) { c[k] = r % s[k]; r /= s[k]; }
            for (size_t j = 0; j < M; j++) v.at(c)[j] = vf_bits<float>(vf_nondet_u32());
        }
    }
    field<B> f = [&] {
        if constexpr (INTERP == 0) return field<B>(make_parameter_pack(std::move(lay)));
        else return field<B>(make_parameter_pack(std::monostate{}, std::move(lay)));
    }();
    typename field<B>::view_t view(f);
    ctx_t<B> x;
    x.view = &view;
    for (size_t k = 0; k < N; k++) {
        if constexpr (INTERP == 0) {
            size_t a = vf_nondet_size();
            vf_assume(a < EXT);
            x.c[k] = a;
        } else {
            float a = vf_nondet_f32();
            vf_assume(a >= 0.0f && a < float(EXT - 1));      // inside the grid (linear reads i and i+1)
            x.c[k] = a;
        }
    }
    // everything another thread could see: the view, the field, the buffer
    vf_share(&view);
    vf_share(&f);
    vf_share(vf::array_of(f.backend()).m_ptr.get());
    vf_concurrently(&lookup<B>, &x);
    vf_region_end(0);
    vf_assert(vf_region_outer_stores() == 0, 1);      // no store to shared or non-stack memory
    vf_assert(vf_region_bad() == 0, 2);               // no mutable global, thread_local, atomic, static-local guard
    // determinism: the same lookup through a second (per-thread) copy of the view gives the same bits
    typename field<B>::view_t view2(f);
    ctx_t<B> y = x;
    y.view = &view2;
#ifndef VF_NATIVE
    if constexpr (INTERP != 2) {      // (linear: equality of two floating-point expression DAGs is not asked of the solver)
        lookup<B>(&y);
        bool same = true;
        for (size_t j = 0; j < M; j++) same = same && x.bits[j] == y.bits[j];
        vf_assert(same, 3);
    } else {
        vf_assert(true, 3);
    }
#else
    vf_assert(true, 3);
#endif
    vf_observe_u64(M);
}

extern "C" void vf_main()
{
    VF_INST;
}
