// C16: a lookup through a view writes nothing that another thread can see, touches no mutable global / thread-local /
// atomic state, and is a function of (view, buffer, coordinate) only; hence lookups never conflict, for any number of
// threads and any schedule. Writers to distinct coordinates: disjoint byte ranges (C01 injectivity, same units).
#include "vf_state.hpp"
using namespace covfie;
namespace cb = covfie::backend;
namespace cv = covfie::vector;

template <int LAYOUT, size_t N, class V> struct layout_of;
template <size_t N, class V> struct layout_of<0, N, V> { using type = cb::strided<cv::vector_d<size_t, N>, cb::array<V>>; };
template <size_t N, class V> struct layout_of<1, N, V> { using type = cb::morton<cv::vector_d<size_t, N>, cb::array<V>, true>; };
template <size_t N, class V> struct layout_of<2, N, V> { using type = cb::morton<cv::vector_d<size_t, N>, cb::array<V>, false>; };
template <size_t N, class V> struct layout_of<3, N, V> { using type = cb::hilbert<cv::vector_d<size_t, N>, cb::array<V>>; };
// INTERP: 0 none, 1 nearest neighbour, 2 linear
template <int I, class L> struct interp_of { using type = L; };
template <class L> struct interp_of<1, L> { using type = cb::nearest_neighbour<L>; };
template <class L> struct interp_of<2, L> { using type = cb::linear<L>; };

template <class B> struct ctx_t {
    const typename field<B>::view_t * view[2];      // two fields of the same type with different extents
    typename field<B>::coordinate_t c[2];
    uint64_t bits[2][4];
};

template <class B> static void lookup(void * p)
{
    auto * x = static_cast<ctx_t<B> *>(p);
    for (int w = 0; w < 2; w++) {
        auto r = x->view[w]->at(x->c[w]);
#ifndef VF_NATIVE
        for (size_t j = 0; j < B::covariant_output_t::dimensions; j++) x->bits[w][j] = vf_bits<uint32_t>(static_cast<float>(r[j]));
#else
        (void)r;       // natively the threads share ctx: only the library's own accesses may be visible to TSan
#endif
    }
}

template <class LB, size_t N, size_t M> static typename LB::owning_data_t filled(size_t ext)
{
    utility::nd_size<N> s;
    size_t total = 1;
    for (size_t k = 0; k < N; k++) { s[k] = ext; total *= ext; }
    typename LB::owning_data_t lay = [&] {
        if constexpr (std::is_constructible_v<typename LB::owning_data_t, typename LB::configuration_t>) return typename LB::owning_data_t(typename LB::configuration_t(s));
        else return typename LB::owning_data_t(typename LB::configuration_t(s), typename LB::backend_t::owning_data_t(utility::ipow(utility::round_pow2(ext), N)));
    }();
    typename LB::non_owning_data_t v(lay);
    for (size_t i = 0; i < total; i++) {
        typename LB::contravariant_input_t::vector_t c;
        size_t r = i;
        for (size_t k = N; k-- > 0;) { c[k] = r % s[k]; r /= s[k]; }
        for (size_t j = 0; j < M; j++) v.at(c)[j] = vf_bits<float>(vf_nondet_u32());
    }
    return lay;
}

template <int LAYOUT, int INTERP, size_t N, class V, size_t EXT> static void footprint_h()
{
    using LB = typename layout_of<LAYOUT, N, V>::type;
    using B = typename interp_of<INTERP, LB>::type;
    constexpr size_t M = V::size;
    constexpr size_t ext[2] = {EXT, EXT + 1};          // different extents (and different enclosing power-of-two squares)
    auto mk = [&](size_t e) {
        if constexpr (INTERP == 0) return field<B>(make_parameter_pack(filled<LB, N, M>(e)));
        else return field<B>(make_parameter_pack(std::monostate{}, filled<LB, N, M>(e)));
    };
    field<B> f0 = mk(ext[0]), f1 = mk(ext[1]);
    typename field<B>::view_t view0(f0), view1(f1);
    ctx_t<B> x;
    x.view[0] = &view0;
    x.view[1] = &view1;
    for (int w = 0; w < 2; w++)
        for (size_t k = 0; k < N; k++) {
            if constexpr (INTERP == 0) {
                size_t a = vf_nondet_size();
                vf_assume(a < ext[w]);
                x.c[w][k] = a;
            } else {
                float a = vf_nondet_f32();
                vf_assume(a >= 0.0f && a < float(ext[w] - 1));      // inside the grid (linear reads i and i+1)
                x.c[w][k] = a;
            }
        }
    // everything another thread could see: the views, the fields, the buffers
    vf_share(&view0); vf_share(&view1);
    vf_share(&f0); vf_share(&f1);
    vf_share(vf::array_of(f0.backend()).m_ptr.get());
    vf_share(vf::array_of(f1.backend()).m_ptr.get());
    vf_concurrently(&lookup<B>, &x);
    vf_region_end(0);
    vf_assert(vf_region_outer_stores() == 0, 1);      // no store to shared or non-stack memory
    vf_assert(vf_region_bad() == 0, 2);               // no mutable global, thread_local, atomic, static-local guard
    // determinism: the same lookups through second (per-thread) copies of the views give the same bits
    typename field<B>::view_t v0b(f0), v1b(f1);
    ctx_t<B> y = x;
    y.view[0] = &v0b;
    y.view[1] = &v1b;
#ifndef VF_NATIVE
    if constexpr (INTERP != 2) {      // (linear: equality of two floating-point expression DAGs is not asked of the solver)
        lookup<B>(&y);
        bool same = true;
        for (int w = 0; w < 2; w++)
            for (size_t j = 0; j < M; j++) same = same && x.bits[w][j] == y.bits[w][j];
        vf_assert(same, 3);
    } else {
        vf_assert(true, 3);
    }
#else
    vf_assert(true, 3);
#endif
    vf_observe_u64(M);
}

extern "C" void vf_main()
{
    VF_INST;
}
