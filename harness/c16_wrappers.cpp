// C16: the footprint obligation of c16_footprint.cpp for the wrapper layers (affine, nearest neighbour, backup, clamp, shuffle,
// covariant_cast, dereference) in one deep array-backed stack, and for the constant and identity backends.
#include "vf_state.hpp"
#include <covfie/core/backend/primitive/constant.hpp>
#include <covfie/core/backend/primitive/identity.hpp>
#include <covfie/core/backend/transformer/affine.hpp>
#include <covfie/core/backend/transformer/backup.hpp>
#include <covfie/core/backend/transformer/clamp.hpp>
#include <covfie/core/backend/transformer/covariant_cast.hpp>
#include <covfie/core/backend/transformer/dereference.hpp>
#include <covfie/core/backend/transformer/shuffle.hpp>
using namespace covfie;
namespace cb = covfie::backend;
namespace cv = covfie::vector;

template <class B> struct wctx_t {
    const typename field<B>::view_t * view;
    typename field<B>::coordinate_t c;
    uint64_t bits[4];
};

template <class B> static void wlookup(void * p)
{
    auto * x = static_cast<wctx_t<B> *>(p);
    auto r = x->view->at(x->c);
#ifndef VF_NATIVE
    for (size_t j = 0; j < B::covariant_output_t::dimensions; j++) x->bits[j] = vf_bits<uint64_t>(static_cast<double>(r[j]));
#else
    (void)r;
#endif
}

template <class B, class F> static void finish(F & f, wctx_t<B> & x, typename field<B>::view_t & view)
{
    vf_concurrently(&wlookup<B>, &x);
    vf_region_end(0);
    vf_assert(vf_region_outer_stores() == 0, 1);
    vf_assert(vf_region_bad() == 0, 2);
    typename field<B>::view_t vb(f);
    wctx_t<B> y = x;
    y.view = &vb;
#ifndef VF_NATIVE
    wlookup<B>(&y);
    bool same = true;
    for (size_t j = 0; j < B::covariant_output_t::dimensions; j++) same = same && x.bits[j] == y.bits[j];
    vf_assert(same, 3);
#else
    (void)view;
    vf_assert(true, 3);
#endif
}

// affine< nearest_neighbour< backup< clamp< shuffle< covariant_cast<double, dereference< strided<size2, array<float2>> > >, (1,0) > > > > >
static void deep_h()
{
    using S = cb::strided<cv::size2, cb::array<cv::float2>>;
    using D = cb::dereference<S>;
    using C = cb::covariant_cast<double, D>;
    using Sh = cb::shuffle<C, std::index_sequence<1, 0>>;
    using Cl = cb::clamp<Sh>;
    using Bk = cb::backup<Cl>;
    using NN = cb::nearest_neighbour<Bk>;
    using B = cb::affine<NN>;
    typename S::owning_data_t st(typename S::configuration_t{size_t(2), size_t(3)});
    {
        typename S::non_owning_data_t sv(st);
        for (size_t i = 0; i < 2; i++)
            for (size_t j = 0; j < 3; j++)
                for (size_t q = 0; q < 2; q++) sv.at({i, j})[q] = vf_bits<float>(vf_nondet_u32());
    }
    typename Cl::configuration_t cl;
    cl.min[0] = 0; cl.min[1] = 0; cl.max[0] = 2; cl.max[1] = 1;      // outer (unshuffled) coordinates: 3 x 2
    typename Bk::configuration_t bk;
    for (size_t k = 0; k < 2; k++) { bk.min[k] = vf_nondet_size(); bk.max[k] = vf_nondet_size(); }
    bk.default_value[0] = vf_nondet_f64(); bk.default_value[1] = vf_nondet_f64();
    algebra::matrix<2, 3, float> m;
    for (size_t i = 0; i < 2; i++)
        for (size_t j = 0; j < 3; j++) {
            float a = vf_nondet_f32();
            vf_assume(a >= -8.0f && a <= 8.0f);
            m(i, j) = a;
        }
    field<B> f(make_parameter_pack(algebra::affine<2, float>(m), std::monostate{}, std::move(bk), std::move(cl), std::monostate{}, std::monostate{}, std::monostate{}, std::move(st)));
    typename field<B>::view_t view(f);
    wctx_t<B> x;
    x.view = &view;
    for (size_t k = 0; k < 2; k++) {
        float a = vf_nondet_f32();
        vf_assume(a >= -8.0f && a <= 8.0f);
        x.c[k] = a;
    }
    vf_share(&view); vf_share(&f);
    vf_share(vf::array_of(f.backend()).m_ptr.get());
    finish<B>(f, x, view);
    vf_observe_u64(1);
}

static void constant_h()
{
    using B = cb::constant<cv::size2, cv::float3>;
    typename B::configuration_t v;
    for (size_t j = 0; j < 3; j++) v[j] = vf_bits<float>(vf_nondet_u32());
    field<B> f(make_parameter_pack(std::move(v)));
    typename field<B>::view_t view(f);
    wctx_t<B> x;
    x.view = &view;
    x.c[0] = vf_nondet_size(); x.c[1] = vf_nondet_size();
    vf_share(&view); vf_share(&f);
    finish<B>(f, x, view);
    vf_observe_u64(2);
}

static void identity_h()
{
    using B = cb::identity<cv::float2>;
    field<B> f(make_parameter_pack(std::monostate{}));
    typename field<B>::view_t view(f);
    wctx_t<B> x;
    x.view = &view;
    x.c[0] = vf_bits<float>(vf_nondet_u32()); x.c[1] = vf_bits<float>(vf_nondet_u32());
    vf_share(&view); vf_share(&f);
    finish<B>(f, x, view);
    vf_observe_u64(3);
}

extern "C" void vf_main()
{
    VF_INST;
}
