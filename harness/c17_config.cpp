// C17: configuration read-back, rebuilding from reported configurations, positional parameter-pack helper
#include "vf_catalogue.hpp"
#include <covfie/core/backend/primitive/array.hpp>
#include <covfie/core/backend/primitive/constant.hpp>
#include <covfie/core/backend/primitive/identity.hpp>
#include <covfie/core/backend/transformer/affine.hpp>
#include <covfie/core/backend/transformer/backup.hpp>
#include <covfie/core/backend/transformer/clamp.hpp>
#include <covfie/core/backend/transformer/dereference.hpp>
#include <covfie/core/backend/transformer/covariant_cast.hpp>
#include <covfie/core/backend/transformer/linear.hpp>
#include <covfie/core/backend/transformer/nearest_neighbour.hpp>
#include <covfie/core/backend/transformer/shuffle.hpp>
#include <covfie/core/backend/transformer/strided.hpp>
#include <covfie/core/field.hpp>
#include <covfie/core/field_view.hpp>
#include <covfie/core/parameter_pack.hpp>
#include <limits>
#include <tuple>
using namespace covfie;

// K nested affine layers over identity<float1>: all layers share one configuration type (algebra::affine<1,float>)
template <size_t K> struct affs { using type = backend::affine<typename affs<K - 1>::type>; };
template <> struct affs<0> { using type = backend::identity<vector::float1>; };
using acfg = algebra::affine<1, float>;

static acfg any_acfg()
{
    array::array<array::array<float, 2>, 1> e;
    e[0][0] = vf_nondet_f32();
    e[0][1] = vf_nondet_f32();
    return acfg(algebra::matrix<1, 2, float>(e));
}
static bool same(const acfg & a, const acfg & b) { return vf_eq_real_f32(a(0, 0), b(0, 0), 0) && vf_eq_real_f32(a(0, 1), b(0, 1), 0); }

// walk K affine layers from the outside in
template <size_t K, class O> static bool walk(const O & o, const acfg * want)
{
    if constexpr (K == 0) return true;
    else return same(o.get_configuration(), want[0]) && walk<K - 1>(o.get_backend(), want + 1);
}

template <size_t K, size_t... Is> static auto pack_for(acfg * c, std::index_sequence<Is...>)
{
    using F = field<typename affs<K>::type>;
    return make_parameter_pack_for<F>(acfg(c[Is])..., std::monostate{});
}

// the helper at depth K+1 (K = 0..9): i-th argument reaches the i-th layer counted from the outside (REAL mode)
template <size_t K> static void helper_h()
{
    using B = typename affs<K>::type;
    acfg c[K + 1];
    for (size_t i = 0; i < K; i++) c[i] = any_acfg();
    field<B> f(pack_for<K>(c, std::make_index_sequence<K>{}));
    vf_assert(walk<K>(f.backend(), c), 1);
    // behavioural tie: the lookup applies the outermost transform first
    float x = vf_nondet_f32(), e = x;
    for (size_t i = 0; i < K; i++) e = c[i](0, 0) * e + c[i](0, 1);
    typename field<B>::view_t v(f);
    vf_assert(vf_eq_real_f32(v.at(x)[0], e, int(2 * K)), 2);
    vf_observe_u64(K);
}

// depth-5 stack over array storage: read back every layer, rebuild from the reported configurations + storage
template <class T> static void stack5_h()
{
    using A = backend::array<vector::vector_d<T, 2>>;
    using S = backend::strided<vector::size2, A>;
    using C = backend::clamp<S>;
    using L = backend::linear<C>;
    using F = backend::affine<L>;
    typename F::configuration_t m;
    for (size_t i = 0; i < 2; i++)
        for (size_t j = 0; j < 3; j++) m(i, j) = vf_nondet_f32();
    typename C::configuration_t cc;
    typename S::configuration_t sz{size_t(2), size_t(2)};
    for (size_t k = 0; k < 2; k++) { cc.min[k] = vf_nondet_size(); cc.max[k] = vf_nondet_size(); }
    field<F> f(make_parameter_pack_for<field<F>>(typename F::configuration_t(m), std::monostate{}, typename C::configuration_t(cc),
                                                  typename S::configuration_t(sz), typename A::configuration_t{size_t(4)}));
    // layer by layer from the outside in
    const auto & o0 = f.backend();
    bool ok = true;
    for (size_t i = 0; i < 2; i++)
        for (size_t j = 0; j < 3; j++) ok = ok && vf::same_bits<float>(o0.get_configuration()(i, j), m(i, j));
    vf_assert(ok, 1);
    const auto & o1 = o0.get_backend();      // linear: monostate
    const auto & o2 = o1.get_backend();      // clamp
    vf_assert(o2.get_configuration().min[0] == cc.min[0] && o2.get_configuration().min[1] == cc.min[1] &&
                  o2.get_configuration().max[0] == cc.max[0] && o2.get_configuration().max[1] == cc.max[1], 2);
    const auto & o3 = o2.get_backend();      // strided
    vf_assert(o3.get_configuration()[0] == 2 && o3.get_configuration()[1] == 2, 3);
    const auto & o4 = o3.get_backend();      // array
    vf_assert(o4.get_configuration()[0] == 4, 4);
    // fill storage with symbolic values (through a strided view of the same storage)
    T vals[4][2];
    for (size_t i = 0; i < 4; i++)
        for (size_t j = 0; j < 2; j++) { vals[i][j] = vf::nondet<T>(); o4.m_ptr[i][j] = vals[i][j]; }
    // rebuild from what the field reports
    field<F> g(make_parameter_pack(o0.get_configuration(), o1.get_configuration(), o2.get_configuration(), o3.get_configuration(), typename A::owning_data_t(o4)));
    vf_assert(g.backend().get_backend().get_backend().get_backend().get_backend().m_ptr.get() != o4.m_ptr.get(), 5);   // own storage
    typename field<C>::view_t::coordinate_t p;
    // compare the integer-level sub-stacks at a symbolic lattice coordinate (the real-level layers are decided by C03/C09)
    const auto & gc = g.backend().get_backend().get_backend();
    typename C::non_owning_data_t vf_(o2), vg_(gc);
    for (size_t k = 0; k < 2; k++) p[k] = vf_nondet_size();
    vf_assume(cc.min[0] <= cc.max[0] && cc.min[1] <= cc.max[1] && cc.max[0] < 2 && cc.max[1] < 2);
    for (size_t j = 0; j < 2; j++) vf_assert(vf::same_bits<T>(vf_.at(p)[j], vg_.at(p)[j]), 6);
    bool cfgsame = true;
    for (size_t i = 0; i < 2; i++)
        for (size_t j = 0; j < 3; j++) cfgsame = cfgsame && vf::same_bits<float>(g.backend().get_configuration()(i, j), m(i, j));
    vf_assert(cfgsame, 7);
    vf_observe_u64(5);
}

// two backups of one configuration type over the probe: arguments must not be swapped
template <size_t N, size_t M> static void backups_h()
{
    using P = vf::probe<N, M, int, float>;
    using B1 = backend::backup<P>;
    using B2 = backend::backup<B1>;
    typename B1::configuration_t c1;
    typename B2::configuration_t c2;
    for (size_t k = 0; k < N; k++) { c1.min[k] = vf_nondet_i32(); c1.max[k] = vf_nondet_i32(); c2.min[k] = vf_nondet_i32(); c2.max[k] = vf_nondet_i32(); }
    for (size_t j = 0; j < M; j++) { c1.default_value[j] = vf_nondet_f32(); c2.default_value[j] = vf_nondet_f32(); }
    field<B2> f(make_parameter_pack_for<field<B2>>(typename B2::configuration_t(c2), typename B1::configuration_t(c1), std::monostate{}));
    auto r2 = f.backend().get_configuration();
    auto r1 = f.backend().get_backend().get_configuration();
    bool ok = true;
    for (size_t k = 0; k < N; k++) ok = ok && r2.min[k] == c2.min[k] && r2.max[k] == c2.max[k] && r1.min[k] == c1.min[k] && r1.max[k] == c1.max[k];
    for (size_t j = 0; j < M; j++) ok = ok && vf::same_bits<float>(r2.default_value[j], c2.default_value[j]) && vf::same_bits<float>(r1.default_value[j], c1.default_value[j]);
    vf_assert(ok, 1);
    vf_observe_u64(2);
}

// every layer's accessors: get_configuration() reports exactly the stored configuration, get_backend() is the next
// layer inwards (same object), for all configuration values; over the serialisable-stack catalogue
template <class O> static bool accessors_ok(const O & o)
{
    using B = typename O::parent_t;
    constexpr vf::kind k = vf::kind_of<B>::value;
    if constexpr (k == vf::K_ARRAY) {
        return o.get_configuration()[0] == o.m_size;
    } else if constexpr (k == vf::K_CONSTANT) {
        return vf::same_arr(o.get_configuration(), o.m_value);
    } else if constexpr (k == vf::K_IDENTITY || k == vf::K_PROBE) {
        return true;
    } else if constexpr (k == vf::K_STRIDED || k == vf::K_MORTON || k == vf::K_HILBERT) {
        return vf::same_arr(o.get_configuration(), o.m_sizes) && static_cast<const void *>(&o.get_backend()) == static_cast<const void *>(&o.m_storage) &&
               accessors_ok(o.get_backend());
    } else if constexpr (k == vf::K_CLAMP) {
        auto c = o.get_configuration();
        return vf::same_arr(c.min, o.m_min) && vf::same_arr(c.max, o.m_max) && static_cast<const void *>(&o.get_backend()) == static_cast<const void *>(&o.m_backend) &&
               accessors_ok(o.get_backend());
    } else if constexpr (k == vf::K_BACKUP) {
        auto c = o.get_configuration();
        return vf::same_arr(c.min, o.m_min) && vf::same_arr(c.max, o.m_max) && vf::same_arr(c.default_value, o.m_default) &&
               static_cast<const void *>(&o.get_backend()) == static_cast<const void *>(&o.m_backend) && accessors_ok(o.get_backend());
    } else if constexpr (k == vf::K_AFFINE) {
        constexpr size_t N = B::contravariant_input_t::dimensions;
        auto c = o.get_configuration();
        bool r = true;
        for (size_t i = 0; i < N; i++)
            for (size_t j = 0; j < N + 1; j++) r = r && vf::same_bits(c(i, j), o.m_transform(i, j));
        return r && static_cast<const void *>(&o.get_backend()) == static_cast<const void *>(&o.m_backend) && accessors_ok(o.get_backend());
    } else {
        return static_cast<const void *>(&o.get_backend()) == static_cast<const void *>(&o.m_backend) && accessors_ok(o.get_backend());
    }
}

template <int K> static void accessors_h()
{
    using B = typename stack<K>::type;
    auto o = vf::blank<B>(1);
    vf::sym(o);
    field<B> f(make_parameter_pack(std::move(o)));
    vf_assert(accessors_ok(f.backend()), 1);
    // the view built from the field sees the same configuration-dependent behaviour: non-owning accessors
    typename field<B>::view_t v(f);
    (void)v;
    vf_observe_u64(K);
}

// rebuilding a stack from what its accessors report, through every constructor overload of every layer:
//   1. (const configuration_t &, backend owning_data_t &&) at each layer
//   2. one parameter pack (configuration of each layer from the outside in, then the storage-order layer's data)
//   3. the forwarding overload (configuration_t, Args...) at each layer: arguments of the next layer's constructor
// the rebuilt stack has the same configuration at every layer and the same stored values (vf::same)
template <class O> static O rebuild1(const O & o)
{
    using B = typename O::parent_t;
    constexpr vf::kind k = vf::kind_of<B>::value;
    if constexpr (k == vf::K_ARRAY || k == vf::K_CONSTANT || k == vf::K_IDENTITY || k == vf::K_PROBE) {
        return O(o);
    } else {
        using I = std::decay_t<decltype(o.get_backend())>;
        return O(o.get_configuration(), rebuild1<I>(o.get_backend()));
    }
}

template <class O> static auto pack_tuple(const O & o)
{
    using B = typename O::parent_t;
    constexpr vf::kind k = vf::kind_of<B>::value;
    if constexpr (k == vf::K_ARRAY || k == vf::K_CONSTANT || k == vf::K_IDENTITY || k == vf::K_PROBE || k == vf::K_STRIDED || k == vf::K_MORTON || k == vf::K_HILBERT) {
        return std::make_tuple(rebuild1<O>(o));
    } else {
        return std::tuple_cat(std::make_tuple(o.get_configuration()), pack_tuple(o.get_backend()));
    }
}

// layers that ship the forwarding overload (configuration_t, Args...); clamp's and backup's (Args...) convenience overload is not
// used here: it is ill-formed on the pinned tree when instantiated (array::array has no member fill; DESIGN 8.3, observation)
template <class B> struct has_fwd : std::false_type {};
template <class S> struct has_fwd<backend::backup<S>> : std::true_type {};
template <class S, class I> struct has_fwd<backend::shuffle<S, I>> : std::true_type {};
template <class T, class S> struct has_fwd<backend::covariant_cast<T, S>> : std::true_type {};
template <class S, class V> struct has_fwd<backend::linear<S, V>> : std::true_type {};
template <class S> struct has_fwd<backend::dereference<S>> : std::true_type {};

template <class O> static O rebuild3(const O & o)
{
    using B = typename O::parent_t;
    constexpr vf::kind k = vf::kind_of<B>::value;
    if constexpr (k == vf::K_ARRAY || k == vf::K_CONSTANT || k == vf::K_IDENTITY || k == vf::K_PROBE) {
        return O(o);
    } else {
        using I = std::decay_t<decltype(o.get_backend())>;
        using IB = typename I::parent_t;
        constexpr vf::kind ik = vf::kind_of<IB>::value;
        if constexpr (ik == vf::K_ARRAY || ik == vf::K_CONSTANT || ik == vf::K_IDENTITY || ik == vf::K_PROBE) {
            return O(o.get_configuration(), rebuild3<I>(o.get_backend()));
        } else {
            using II = std::decay_t<decltype(o.get_backend().get_backend())>;
            if constexpr (has_fwd<B>::value && std::is_constructible_v<O, typename B::configuration_t, typename IB::configuration_t, II>)
                return O(o.get_configuration(), o.get_backend().get_configuration(), rebuild3<II>(o.get_backend().get_backend()));
            else
                return O(o.get_configuration(), rebuild3<I>(o.get_backend()));
        }
    }
}

template <int K> static void rebuild_h()
{
    using B = typename stack<K>::type;
    using O = typename B::owning_data_t;
    auto o = vf::blank<B>(1);
    vf::sym(o);
    field<B> f(make_parameter_pack(std::move(o)));
    {
        O r(rebuild1<O>(f.backend()));
        vf_assert(vf::same(r, f.backend()), 1);
    }
    {
        auto t = pack_tuple(f.backend());
        field<B> g(std::apply([](auto &&... xs) { return make_parameter_pack(std::forward<decltype(xs)>(xs)...); }, std::move(t)));
        vf_assert(vf::same(g.backend(), f.backend()), 2);
    }
    {
        O r(rebuild3<O>(f.backend()));
        vf_assert(vf::same(r, f.backend()), 3);
    }
    vf_observe_u64(K);
}

// the same on geometry-consistent states (extents 1..BND, the storage the library allocates): the rebuilt field also LOOKS UP the
// same value at every lattice coordinate (a member the accessors do not report, left unset by one constructor, shows here)
template <int K, size_t BND> static void rebuild_geo_h()
{
    using B = typename stack<K>::type;
    using O = typename B::owning_data_t;
    auto o = vf::blank_c<B>(BND);
    vf::sym(o);
    field<B> f(make_parameter_pack(std::move(o)));
    {
        O r(rebuild1<O>(f.backend()));
        vf_assert(vf::same(r, f.backend()) && vf::same_lookup(r, f.backend()), 1);
    }
    {
        auto t = pack_tuple(f.backend());
        field<B> g(std::apply([](auto &&... xs) { return make_parameter_pack(std::forward<decltype(xs)>(xs)...); }, std::move(t)));
        vf_assert(vf::same(g.backend(), f.backend()) && vf::same_lookup(g.backend(), f.backend()), 2);
    }
    {
        O r(rebuild3<O>(f.backend()));
        vf_assert(vf::same(r, f.backend()) && vf::same_lookup(r, f.backend()), 3);
    }
    vf_observe_u64(K);
}

// ... and with the ORIGINAL built by a different route than the rebuild (conversion from a row-major field, which goes through the
// converting constructor of the layout layer): the field rebuilt from get_configuration() + get_backend() through the
// (configuration, backend) constructor looks up the same value as the original at every lattice coordinate
template <int L, size_t BND> static void rebuild_conv_h()
{
    using S = backend::strided<vector::size2, backend::array<vector::float1>>;
    using T = std::conditional_t<L == 0, S, std::conditional_t<L == 1, backend::morton<vector::size2, backend::array<vector::float1>>,
                                                                backend::hilbert<vector::size2, backend::array<vector::float1>>>>;
    using O = typename T::owning_data_t;
    auto o = vf::blank_c<S>(BND);
    vf::sym(o);
    field<S> src(make_parameter_pack(std::move(o)));
    field<T> f0(src);
    {
        O r(rebuild1<O>(f0.backend()));
        vf_assert(vf::same(r, f0.backend()) && vf::same_lookup(r, f0.backend()), 1);
    }
    {
        O r(rebuild3<O>(f0.backend()));
        vf_assert(vf::same(r, f0.backend()) && vf::same_lookup(r, f0.backend()), 3);
    }
    {
        // through a file as well (the reader uses the same constructor)
        std::ostream * os = vf_ostream();
        f0.dump(*os);
        std::istream * is = vf_istream_from(os, vf_stream_len(os), VF_NEVER);
        field<T> g(*is);
        vf_assert(vf::same_lookup(g.backend(), f0.backend()), 2);
    }
    vf_observe_u64(L);
}

// the array backend with a non-default index type: the size it is constructed with is the size it reports and allocates,
// also when that size does not fit the index type (sizes around 2^8 and 2^16; the configuration is an nd_size of size_t)
template <class I> static void array_index_h()
{
    using B = backend::array<vector::float1, I>;
    constexpr size_t cand[8] = {0, 1, 255, 256, 257, 300, 65536, 65537};
    size_t n = cand[vf_nondet_range(0, sizeof(I) == 1 ? 5 : 7)];
    size_t live0 = vf_heap_live();
    {
        field<B> f(make_parameter_pack(typename B::configuration_t{n}));
        vf_assert(f.backend().get_configuration()[0] == n, 1);
        vf_assert(f.backend().m_size == n, 2);
        typename B::owning_data_t direct(n);
        vf_assert(direct.get_configuration()[0] == n, 3);
        typename B::owning_data_t fromcfg(typename B::configuration_t{n});
        vf_assert(fromcfg.get_configuration()[0] == n, 3);
        if (n > 0) {
            // the last cell the index type can address is inside the storage
            size_t last = n - 1 > static_cast<size_t>(std::numeric_limits<I>::max()) ? static_cast<size_t>(std::numeric_limits<I>::max()) : n - 1;
            typename field<B>::view_t v(f);
            v.at(static_cast<I>(last))[0] = 1.5f;
            vf_assert(v.at(static_cast<I>(last))[0] == 1.5f, 4);
        }
    }
    vf_assert(vf_heap_live() == live0, 5);
    vf_observe_u64(n);
}

extern "C" void vf_main()
{
    VF_INST;
}
