// C18: round_pow2 and ipow (lib/core/covfie/core/utility/numeric.hpp)
#include "vf.h"
#include <covfie/core/utility/numeric.hpp>
#include <type_traits>
using namespace covfie;

// oracle multiplication modulo 2^w without integral-promotion overflow
template <class T> static T mulw(T a, T b)
{
    return static_cast<T>(static_cast<unsigned long>(a) * static_cast<unsigned long>(b));
}

template <class T> static T nd()
{
    if constexpr (sizeof(T) == 1) return vf_nondet_u8();
    else if constexpr (sizeof(T) == 2) return vf_nondet_u16();
    else if constexpr (sizeof(T) == 4) return vf_nondet_u32();
    else return vf_nondet_u64();
}

// least power of two not below i, for every 1 <= i <= 2^(w-1)
template <class T> static void round_pow2_h()
{
    constexpr unsigned w = 8 * sizeof(T);
    T i = nd<T>();
    vf_assume(i >= 1);
    vf_assume(i <= (T(1) << (w - 1)));
    T r = utility::round_pow2<T>(i);
#ifdef VF_WITNESS
    vf_assert(false, 1);   // sabotage twin: must be refuted
#endif
    vf_assert(r != 0 && T(r & T(r - 1)) == 0, 1);   // a power of two
    vf_assert(r >= i, 2);                             // not below i
    vf_assert(T(r / 2) < i, 3);                       // the least such
    vf_observe_u64(r);
}

// recurrences that characterise b^e in the ring Z/2^w, for all b, e
template <class T> static void ipow_rec_h()
{
    T b = nd<T>(), e = nd<T>();
    constexpr unsigned w = 8 * sizeof(T);
    vf_assert(utility::ipow<T>(b, 0) == 1, 1);
    vf_assert(utility::ipow<T>(b, 1) == b, 2);
    vf_assume(e <= (T(~T(0)) >> 1));   // 2e, 2e+1 representable
    T lhs_even = utility::ipow<T>(b, T(2 * e));
    T rhs_even = utility::ipow<T>(mulw<T>(b, b), e);
    vf_assert(lhs_even == rhs_even, 3);
    T lhs_odd = utility::ipow<T>(b, T(2 * e + 1));
    T rhs_odd = mulw<T>(b, utility::ipow<T>(mulw<T>(b, b), e));
    vf_assert(lhs_odd == rhs_odd, 4);
    vf_observe_u64(lhs_even);
    vf_observe_u64(lhs_odd);
}

// ipow(b, e) equals the binary-expansion product  prod_j (b^(2^j))^(bit_j(e))  for all b, e
// (oracle loop runs all w iterations, no early exit; association order as in square-and-multiply)
template <class T> static void ipow_bin_h()
{
    constexpr unsigned w = 8 * sizeof(T);
    T b = nd<T>(), e = nd<T>();
    T r = utility::ipow<T>(b, e);
    T o = 1, sq = b;
    for (unsigned j = 0; j < w; ++j) {
        if ((e >> j) & 1) o = mulw<T>(o, sq);
        sq = mulw<T>(sq, sq);
    }
    vf_assert(r == o, 1);
    vf_observe_u64(r);
}

// ipow(b, E) == b^E mod 2^w for symbolic b and a concrete exponent E (naive product as oracle)
template <class T, unsigned long E> static void ipow_exact_h()
{
    T b = nd<T>();
    T r = utility::ipow<T>(b, T(E));
    T o = 1;
    for (unsigned long k = 0; k < E; ++k) o = mulw<T>(o, b);
    vf_assert(r == o, 1);
    vf_observe_u64(r);
}

// all (b, e) pairs at once against the naive loop; bounded by EMAX
template <class T, unsigned long EMAX> static void ipow_all_h()
{
    T b = nd<T>(), e = nd<T>();
    vf_assume(e <= EMAX);
    T r = utility::ipow<T>(b, e);
    T o = 1;
    for (T k = 0; k < e; ++k) o = mulw<T>(o, b);
    vf_assert(r == o, 1);
    vf_observe_u64(r);
}

extern "C" void vf_main()
{
    VF_INST;
}
