// C19: nd_map visits every index tuple of the box exactly once and nothing else
#include "vf.h"
#include <covfie/core/array.hpp>
#include <covfie/core/utility/nd_map.hpp>
#include <covfie/core/utility/nd_size.hpp>
using namespace covfie;

template <size_t D, size_t B> static void ndmap_h()
{
    using T = utility::nd_size<D>;
    T e;
    size_t p[D];
    bool inside = true;
    for (size_t k = 0; k < D; k++) {
        e[k] = vf_nondet_u64();
        vf_assume(e[k] <= B);
        p[k] = vf_nondet_u64();          // the probe tuple is unconstrained
        inside = inside && p[k] < e[k];
    }
    size_t count = 0, total = 0;
    size_t live0 = vf_heap_live();
    utility::nd_map<T>(
        [&count, &total, &p](T t) {
            bool eq = true;
            for (size_t k = 0; k < D; k++) eq = eq && t[k] == p[k];
            if (eq) ++count;
            ++total;
        },
        e
    );
    vf_assert(count == (inside ? 1u : 0u), 1);       // p visited exactly once iff inside the box
    size_t prod = 1;
    for (size_t k = 0; k < D; k++) prod *= e[k];
    vf_assert(total == prod, 2);                     // number of invocations
    vf_assert(vf_heap_live() == live0, 3);           // closures released
    vf_observe_u64(total);
    vf_observe_u64(count);
}

// the same with a narrow index type I for the tuples (nd_map is a template over the tuple type): fixed extents whose
// product does not fit I (16 x 16 in uint8_t, ...); the probe tuple is symbolic
template <class I, size_t D, size_t E0, size_t E1, size_t E2 = 1, size_t E3 = 1> static void ndmap_typed_h()
{
    using T = covfie::array::array<I, D>;
    constexpr size_t ext[4] = {E0, E1, E2, E3};
    T e;
    size_t p[D];
    bool inside = true;
    size_t prod = 1;
    for (size_t k = 0; k < D; k++) {
        e[k] = static_cast<I>(ext[k]);
        prod *= ext[k];
        p[k] = vf_nondet_u64();
        inside = inside && p[k] < ext[k];
    }
    size_t count = 0, total = 0;
    size_t live0 = vf_heap_live();
    utility::nd_map<T>(
        [&count, &total, &p](T t) {
            bool eq = true;
            for (size_t k = 0; k < D; k++) eq = eq && static_cast<size_t>(t[k]) == p[k];
            if (eq) ++count;
            ++total;
        },
        e
    );
    vf_assert(count == (inside ? 1u : 0u), 1);
    vf_assert(total == prod, 2);
    vf_assert(vf_heap_live() == live0, 3);
    vf_observe_u64(total);
}

// for ALL extent vectors with every extent >= 1 (unbounded, 64-bit): the walk starts, and it starts at the origin.
// The callback leaves the walk by throwing, so boxes of any size are explored without iterating over them.
struct stop_walk {};
template <size_t D> static void ndmap_first_h()
{
    using T = utility::nd_size<D>;
    T e;
    for (size_t k = 0; k < D; k++) {
        e[k] = vf_nondet_u64();
        vf_assume(e[k] >= 1);
    }
    bool called = false, origin = true;
    try {
        utility::nd_map<T>(
            [&called, &origin](T t) {
                called = true;
                for (size_t k = 0; k < D; k++) origin = origin && t[k] == 0;
                throw stop_walk{};
            },
            e
        );
    } catch (...) {
    }
    vf_assert(called, 1);        // a non-empty box is never skipped
    vf_assert(origin, 2);        // and the first tuple is the origin
    vf_observe_u64(called);
}

extern "C" void vf_main()
{
    VF_INST;
}
