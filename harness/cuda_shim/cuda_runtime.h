#pragma once
#include "cuda_runtime_api.h"
