// Host shim of the few CUDA runtime entry points covfie's cuda_device_array uses (C05, reduced assurance:
// "device" memory is ordinary memory). The engine models these externals (engine/models.py); the native replay
// runtime implements them with malloc/free/memcpy.
#pragma once
#include <cstddef>
extern "C" {
typedef int cudaError_t;
enum { cudaSuccess = 0 };
enum cudaMemcpyKind { cudaMemcpyHostToHost = 0, cudaMemcpyHostToDevice = 1, cudaMemcpyDeviceToHost = 2, cudaMemcpyDeviceToDevice = 3 };
cudaError_t vf_cudaMalloc(void ** p, size_t n);
cudaError_t cudaFree(void * p);
cudaError_t cudaMemcpy(void * dst, const void * src, size_t n, cudaMemcpyKind kind);
const char * cudaGetErrorString(cudaError_t);
}
template <class T> static inline cudaError_t cudaMalloc(T ** p, size_t n)
{
    return vf_cudaMalloc(reinterpret_cast<void **>(p), n);
}
