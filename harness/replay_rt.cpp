// Native implementation of the harness interface (vf.h): counterexample replay and the concrete side of
// the differential validation (DESIGN.md 2.7, 2.8). Input: file named by $VF_REPLAY, lines
//   in <kind> <u64 value (raw bits for floats)>
//   uf <name> <nargs> <arg bits>... <value bits>
// Output on stdout: "OBS <kind> <hex>", "ASSERT-FAIL site=<n>", "ASSERT-OK site=<n>", "ASSUME-FALSE",
// "HEAP live=<n>" ; exit code 0 normally, 3 on ASSUME-FALSE.
#include "vf.h"

#include <cmath>
#include <cstdio>
#include <cstdlib>
#include <iostream>
#include <map>
#include <sstream>
#include <stdexcept>
#include <streambuf>
#include <string>
#include <thread>
#include <vector>
#if __has_include(<valgrind/memcheck.h>)
#include <valgrind/memcheck.h>
#define VF_CHECK_DEFINED(p, n) (void)VALGRIND_CHECK_MEM_IS_DEFINED(p, n)
#else
#define VF_CHECK_DEFINED(p, n) (void)0
#endif

namespace {
struct rec {
    std::string kind;
    uint64_t v;
};
std::vector<rec> g_in;
size_t g_next = 0;
std::map<std::string, std::map<std::vector<uint64_t>, uint64_t>> g_uf;
std::vector<std::vector<uint64_t>> g_probe;
bool g_loaded = false;
long g_live = 0;
int g_rt = 0;   // >0 while inside the runtime itself: its allocations are not the program's
struct rt_scope { rt_scope() { ++g_rt; } ~rt_scope() { --g_rt; } };

// output stream storage that never uses operator new (so that the heap audit only sees the program)
struct out_buf : std::streambuf {
    char * p = nullptr; size_t n = 0, cap = 0;
    void put(const char * s, size_t k)
    {
        if (n + k > cap) { cap = (n + k) * 2 + 64; p = (char *)std::realloc(p, cap); }
        std::memcpy(p + n, s, k); n += k;
    }
    std::streamsize xsputn(const char * s, std::streamsize k) override { VF_CHECK_DEFINED(s, (size_t)k); put(s, (size_t)k); return k; }
    int_type overflow(int_type c) override { if (c != traits_type::eof()) { char ch = (char)c; put(&ch, 1); } return c; }
    std::string str() const { return std::string(p ? p : "", n); }
};

void load()
{
    if (g_loaded) return;
    rt_scope _r;
    g_loaded = true;
    const char * p = std::getenv("VF_REPLAY");
    if (!p) return;
    FILE * f = std::fopen(p, "r");
    if (!f) { std::fprintf(stderr, "cannot open %s\n", p); std::exit(4); }
    char tag[16], name[64];
    while (std::fscanf(f, "%15s", tag) == 1) {
        if (std::string(tag) == "in") {
            unsigned long long v;
            if (std::fscanf(f, "%63s %llu", name, &v) != 2) break;
            g_in.push_back({name, (uint64_t)v});
        } else if (std::string(tag) == "uf") {
            int n;
            if (std::fscanf(f, "%63s %d", name, &n) != 2) break;
            std::vector<uint64_t> a(n);
            unsigned long long v;
            for (int i = 0; i < n; i++) { if (std::fscanf(f, "%llu", &v) != 1) break; a[i] = v; }
            if (std::fscanf(f, "%llu", &v) != 1) break;
            g_uf[name][a] = v;
        } else break;
    }
    std::fclose(f);
}

uint64_t next_in()
{
    load();
    if (g_next < g_in.size()) return g_in[g_next++].v;
    g_next++;
    return 0;
}

// default semantics of an uninterpreted function when the replay file does not define the point:
// a small integer-valued hash (exact in float arithmetic); the engine's pinned runs use the same formula
int64_t uf_default(uint64_t fid, const std::vector<uint64_t> & a)
{
    uint64_t h = fid * 7;
    static const uint64_t w[] = {3, 5, 11, 13, 17, 19, 23};
    for (size_t i = 0; i < a.size(); i++) h += (a[i] & 0xFFFF) * w[i % 7];
    return (int64_t)(h % 61) - 30;
}

uint64_t dbits(double d) { uint64_t u; std::memcpy(&u, &d, 8); return u; }
uint32_t fbits(float d) { uint32_t u; std::memcpy(&u, &d, 4); return u; }

struct prefix_buf : std::streambuf {
    std::string data;
    size_t pos = 0, nreads = 0, fail_at;
    prefix_buf(std::string d, size_t fa) : data(std::move(d)), fail_at(fa) {}
    std::streamsize xsgetn(char * s, std::streamsize n) override
    {
        if (nreads++ >= fail_at) throw std::runtime_error("injected stream failure");
        size_t k = std::min<size_t>(n, data.size() - pos);
        std::memcpy(s, data.data() + pos, k);
        pos += k;
        return k;
    }
    int_type underflow() override { return traits_type::eof(); }
};
}

void * operator new(size_t n) { if (!g_rt) g_live++; void * p = std::malloc(n ? n : 1); if (!p) throw std::bad_alloc(); return p; }
void * operator new[](size_t n) { if (!g_rt) g_live++; void * p = std::malloc(n ? n : 1); if (!p) throw std::bad_alloc(); return p; }
void operator delete(void * p) noexcept { if (p) { if (!g_rt) g_live--; std::free(p); } }
void operator delete[](void * p) noexcept { if (p) { if (!g_rt) g_live--; std::free(p); } }
void operator delete(void * p, size_t) noexcept { if (p) { if (!g_rt) g_live--; std::free(p); } }
void operator delete[](void * p, size_t) noexcept { if (p) { if (!g_rt) g_live--; std::free(p); } }

extern "C" {
uint8_t vf_nondet_u8() { return (uint8_t)next_in(); }
uint16_t vf_nondet_u16() { return (uint16_t)next_in(); }
uint32_t vf_nondet_u32() { return (uint32_t)next_in(); }
uint64_t vf_nondet_u64() { return next_in(); }
size_t vf_nondet_size() { return next_in(); }
int32_t vf_nondet_i32() { return (int32_t)(uint32_t)next_in(); }
int64_t vf_nondet_i64() { return (int64_t)next_in(); }
float vf_nondet_f32() { return vf_bits<float>((uint32_t)next_in()); }
double vf_nondet_f64() { return vf_bits<double>(next_in()); }
float vf_nondet_unit_f32() { return vf_bits<float>((uint32_t)next_in()); }
double vf_nondet_unit_f64() { return vf_bits<double>(next_in()); }
bool vf_nondet_bool() { return next_in() & 1; }
size_t vf_nondet_range(size_t lo, size_t hi)
{
    size_t v = next_in();
    if (v < lo || v > hi) { std::printf("ASSUME-FALSE\n"); std::fflush(stdout); std::_Exit(3); }
    return v;
}

void vf_assume(bool c)
{
    if (!c) { std::printf("ASSUME-FALSE\n"); std::fflush(stdout); std::_Exit(3); }
}
void vf_assert(bool c, int site) { std::printf(c ? "ASSERT-OK site=%d\n" : "ASSERT-FAIL site=%d\n", site); std::fflush(stdout); }
void vf_observe_u64(uint64_t v) { std::printf("OBS u64 %llx\n", (unsigned long long)v); }
void vf_observe_f64(double v) { std::printf("OBS f64 %llx\n", (unsigned long long)dbits(v)); }

static uint64_t uf_lookup(const char * name, uint64_t fid, std::vector<uint64_t> a, bool & found)
{
    load();
    auto it = g_uf.find(name);
    if (it != g_uf.end()) {
        auto jt = it->second.find(a);
        if (jt != it->second.end()) { found = true; return jt->second; }
    }
    found = false;
    return 0;
}
#define UFNAME(buf, fid, suf) char buf[64]; std::snprintf(buf, sizeof buf, "UF%llu_%s", (unsigned long long)fid, suf)
float vf_uf_f32(uint64_t fid, uint64_t c0, uint64_t c1, uint64_t c2, uint64_t c3, uint64_t c4, uint64_t comp)
{
    UFNAME(nm, fid, "f32"); bool f; std::vector<uint64_t> a{c0, c1, c2, c3, c4, comp};
    uint64_t v = uf_lookup(nm, fid, a, f);
    return f ? vf_bits<float>((uint32_t)v) : (float)uf_default(fid, a);
}
double vf_uf_f64(uint64_t fid, uint64_t c0, uint64_t c1, uint64_t c2, uint64_t c3, uint64_t c4, uint64_t comp)
{
    UFNAME(nm, fid, "f64"); bool f; std::vector<uint64_t> a{c0, c1, c2, c3, c4, comp};
    uint64_t v = uf_lookup(nm, fid, a, f);
    return f ? vf_bits<double>(v) : (double)uf_default(fid, a);
}
uint64_t vf_uf_u64(uint64_t fid, uint64_t c0, uint64_t c1, uint64_t c2, uint64_t c3, uint64_t c4, uint64_t comp)
{
    UFNAME(nm, fid, "u64"); bool f; std::vector<uint64_t> a{c0, c1, c2, c3, c4, comp};
    uint64_t v = uf_lookup(nm, fid, a, f);
    return f ? v : (uint64_t)(uf_default(fid, a) + 30);
}
float vf_ufr_f32(uint64_t fid, double c0, double c1, double c2, double c3, double c4, uint64_t comp)
{
    UFNAME(nm, fid, "f32r"); bool f; std::vector<uint64_t> a{dbits(c0), dbits(c1), dbits(c2), dbits(c3), dbits(c4), comp};
    uint64_t v = uf_lookup(nm, fid, a, f);
    return f ? vf_bits<float>((uint32_t)v) : (float)uf_default(fid, a);
}
double vf_ufr_f64(uint64_t fid, double c0, double c1, double c2, double c3, double c4, uint64_t comp)
{
    UFNAME(nm, fid, "f64r"); bool f; std::vector<uint64_t> a{dbits(c0), dbits(c1), dbits(c2), dbits(c3), dbits(c4), comp};
    uint64_t v = uf_lookup(nm, fid, a, f);
    return f ? vf_bits<double>(v) : (double)uf_default(fid, a);
}

float vf_coord_f32(uint64_t i, float a) { return (float)i + a; }
double vf_coord_f64(uint64_t i, double a) { return (double)i + a; }
bool vf_eq_real_f32(float a, float b, int ops)
{
    if (a == b) return true;
    double s = std::fmax(1.0, std::fmax(std::fabs((double)a), std::fabs((double)b)));
    return std::fabs((double)a - (double)b) <= (ops + 1) * 6e-8 * s * 4;
}
bool vf_eq_real_f64(double a, double b, int ops)
{
    if (a == b) return true;
    double s = std::fmax(1.0, std::fmax(std::fabs(a), std::fabs(b)));
    return std::fabs(a - b) <= (ops + 1) * 1.2e-16 * s * 4;
}

void * vf_buffer(size_t bytes) { return std::malloc(bytes < (1u << 20) ? bytes + 1 : (1u << 20)); }
size_t vf_ptrdiff(const void * a, const void * base) { return (const char *)a - (const char *)base; }
bool vf_same_object(const void *, const void *) { return true; }
size_t vf_heap_live() { return (size_t)g_live; }
static long g_cuda_live = 0;
size_t vf_cuda_live() { return (size_t)g_cuda_live; }
int vf_cudaMalloc(void ** p, size_t n) { *p = std::malloc(n ? n : 1); g_cuda_live++; return 0; }
int cudaFree(void * p) { if (p) { g_cuda_live--; std::free(p); } return 0; }
int cudaMemcpy(void * d, const void * s, size_t n, int) { std::memcpy(d, s, n); return 0; }
const char * cudaGetErrorString(int) { return "cuda shim"; }

void vf_probe_note(uint64_t n, uint64_t c0, uint64_t c1, uint64_t c2, uint64_t c3, uint64_t c4) { rt_scope _r; g_probe.push_back({n, c0, c1, c2, c3, c4}); }
uint64_t vf_probe_calls() { return g_probe.size(); }
uint64_t vf_probe_arg(uint64_t call, uint64_t k) { return call < g_probe.size() ? g_probe[call][k] : 0; }
void vf_probe_reset() { g_probe.clear(); }
void vf_probe_note_r(uint64_t n, double c0, double c1, double c2, double c3, double c4) { rt_scope _r; g_probe.push_back({n, dbits(c0), dbits(c1), dbits(c2), dbits(c3), dbits(c4)}); }
double vf_probe_arg_r(uint64_t call, uint64_t k) { return call < g_probe.size() ? vf_bits<double>(g_probe[call][k]) : 0.0; }

void vf_share(const void *) {}
void vf_region_begin(int) {}
void vf_region_end(int) {}
uint64_t vf_region_outer_stores() { return 0; }
uint64_t vf_region_bad() { return 0; }
bool vf_thrown_is(int) { return true; }
void vf_concurrently(void (*fn)(void *), void * ctx)
{
    std::thread a(fn, ctx), b(fn, ctx), c(fn, ctx);
    a.join(); b.join(); c.join();
    fn(ctx);
}

std::ostream * vf_ostream() { rt_scope _r; return new std::ostream(new out_buf()); }
std::istream * vf_istream_from(std::ostream * os, size_t len, size_t fail_at)
{
    rt_scope _r;
    std::string s = static_cast<out_buf *>(os->rdbuf())->str();
    if (len > s.size()) { std::printf("ASSUME-FALSE\n"); std::fflush(stdout); std::_Exit(3); }
    return new std::istream(new prefix_buf(s.substr(0, len), fail_at));
}
std::istream * vf_istream_bytes(size_t n)
{
    rt_scope _r;
    std::string s(n, '\0');
    for (size_t i = 0; i < n; i++) s[i] = (char)next_in();
    return new std::istream(new prefix_buf(s, ~size_t(0)));
}
size_t vf_stream_len(std::ostream * os) { return static_cast<out_buf *>(os->rdbuf())->n; }
uint8_t vf_stream_byte(std::ostream * os, size_t i) { return (uint8_t) static_cast<out_buf *>(os->rdbuf())->p[i]; }
void vf_stream_set_byte(std::istream * is, size_t i, uint8_t b) { static_cast<prefix_buf *>(is->rdbuf())->data[i] = (char)b; }
void vf_stream_set_u32(std::istream * is, size_t i, uint32_t w) { std::memcpy(&static_cast<prefix_buf *>(is->rdbuf())->data[i], &w, 4); }

size_t vf_istream_pos(std::istream * is) { return static_cast<prefix_buf *>(is->rdbuf())->pos; }
size_t vf_istream_nreads(std::istream * is) { return static_cast<prefix_buf *>(is->rdbuf())->nreads; }

void vf_main();
}

int main()
{
    load();
    try {
        vf_main();
    } catch (const std::exception & e) {
        std::printf("UNCAUGHT %s\n", e.what());
        return 5;
    } catch (...) {
        std::printf("UNCAUGHT ...\n");
        return 5;
    }
    std::printf("DONE inputs=%zu\n", g_next);
    std::fflush(stdout);
    return 0;
}
