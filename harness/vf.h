// Harness <-> engine interface (DESIGN.md 2.2). The same declarations are implemented
// (a) by the symbolic executor's models (engine/models.py) and (b) natively by replay_rt.cpp.
#pragma once
#include <cstddef>
#include <cstdint>
#include <cstring>
#include <iosfwd>

extern "C" {
uint8_t vf_nondet_u8();
uint16_t vf_nondet_u16();
uint32_t vf_nondet_u32();
uint64_t vf_nondet_u64();
size_t vf_nondet_size();
int32_t vf_nondet_i32();
int64_t vf_nondet_i64();
float vf_nondet_f32();
double vf_nondet_f64();
float vf_nondet_unit_f32();   // 0 <= x < 1
double vf_nondet_unit_f64();
bool vf_nondet_bool();
// value in [lo,hi]; the engine explores each value on its own path
size_t vf_nondet_range(size_t lo, size_t hi);

void vf_assume(bool);
void vf_assert(bool, int site);
void vf_observe_u64(uint64_t);
void vf_observe_f64(double);

// uninterpreted functions: fid selects the function, last argument is the output component
float vf_uf_f32(uint64_t fid, uint64_t c0, uint64_t c1, uint64_t c2, uint64_t c3, uint64_t c4, uint64_t comp);
double vf_uf_f64(uint64_t fid, uint64_t c0, uint64_t c1, uint64_t c2, uint64_t c3, uint64_t c4, uint64_t comp);
uint64_t vf_uf_u64(uint64_t fid, uint64_t c0, uint64_t c1, uint64_t c2, uint64_t c3, uint64_t c4, uint64_t comp);
float vf_ufr_f32(uint64_t fid, double c0, double c1, double c2, double c3, double c4, uint64_t comp);
double vf_ufr_f64(uint64_t fid, double c0, double c1, double c2, double c3, double c4, uint64_t comp);

// REAL mode: the coordinate i + a (i >= 0 integer, 0 <= a < 1) and exact comparison
float vf_coord_f32(uint64_t i, float a);
double vf_coord_f64(uint64_t i, double a);
bool vf_eq_real_f32(float a, float b, int ops);
bool vf_eq_real_f64(double a, double b, int ops);

// raw storage of symbolic size (never read through unless stated) and pointer difference within one object
void * vf_buffer(size_t bytes);
size_t vf_ptrdiff(const void * a, const void * base);
bool vf_same_object(const void * a, const void * b);

size_t vf_heap_live();
size_t vf_cuda_live();      // live allocations of the CUDA shim (harness/cuda_shim)

// probe backend bookkeeping
void vf_probe_note(uint64_t n, uint64_t c0, uint64_t c1, uint64_t c2, uint64_t c3, uint64_t c4);
uint64_t vf_probe_calls();
uint64_t vf_probe_arg(uint64_t call, uint64_t k);
void vf_probe_reset();
void vf_probe_note_r(uint64_t n, double c0, double c1, double c2, double c3, double c4);
double vf_probe_arg_r(uint64_t call, uint64_t k);

// footprint recorder (C16): objects declared shared, then every store inside a region that hits a shared object or
// any non-stack object is counted; mutable globals / atomics / thread_locals touched are counted by vf_region_bad
void vf_share(const void *);
void vf_region_begin(int);
void vf_region_end(int);
uint64_t vf_region_outer_stores();
uint64_t vf_region_bad();

// C16: run fn(ctx) as "one of many concurrent lookups". Engine: executed once inside a footprint region.
// Native replay: executed simultaneously by several threads (built with -fsanitize=thread).
void vf_concurrently(void (*fn)(void *), void * ctx);

// exception class of the last throw: 1 runtime_error, 2 logic_error, 3 bad_alloc/length_error, 4 other
bool vf_thrown_is(int cls);

// streams
std::ostream * vf_ostream();
std::istream * vf_istream_from(std::ostream *, size_t len, size_t fail_at);
std::istream * vf_istream_bytes(size_t n);
size_t vf_stream_len(std::ostream *);
uint8_t vf_stream_byte(std::ostream *, size_t i);
void vf_stream_set_byte(std::istream *, size_t i, uint8_t b);
void vf_stream_set_u32(std::istream *, size_t i, uint32_t w);
size_t vf_istream_pos(std::istream *);      // bytes consumed so far
size_t vf_istream_nreads(std::istream *);   // read() calls made so far
}

#define VF_NEVER (~size_t(0))

template <class T, class U>
static inline T vf_bits(U u)
{
    static_assert(sizeof(T) == sizeof(U));
    T t;
    __builtin_memcpy(&t, &u, sizeof(T));
    return t;
}
