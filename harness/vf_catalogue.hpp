// The catalogue of serialisable stacks shared by the IO harnesses (C06/C07/C08) and the accessor harness (C17)
#pragma once
#include "vf_state.hpp"
namespace cb = covfie::backend;
namespace cv = covfie::vector;

// ---------------------------------------------------------------------------------------------- the stack catalogue
template <int K> struct stack;
#define STACK(K, ...) template <> struct stack<K> { using type = __VA_ARGS__; }
STACK(0, cb::array<cv::float3>);
STACK(1, cb::constant<cv::size2, cv::float3>);
STACK(2, cb::identity<cv::float2>);
STACK(3, cb::strided<cv::size3, cb::array<cv::float3>>);
STACK(4, cb::affine<cb::linear<cb::strided<cv::size2, cb::array<cv::float2>>>>);
STACK(5, cb::clamp<cb::morton<cv::size2, cb::array<cv::double2>>>);
STACK(6, cb::backup<cb::shuffle<cb::strided<cv::size2, cb::array<cv::float1>>, std::index_sequence<1, 0>>>);
STACK(7, cb::hilbert<cv::size2, cb::array<cv::float1>>);
STACK(8, cb::covariant_cast<double, cb::strided<cv::size1, cb::array<cv::float2>>>);
STACK(9, cb::dereference<cb::strided<cv::size1, cb::array<cv::float1>>>);
STACK(10, cb::nearest_neighbour<cb::strided<cv::size2, cb::array<cv::float1>>>);
STACK(11, cb::array<cv::double1>);
STACK(12, cb::constant<cv::float1, cv::double2>);
STACK(13, cb::array<cv::double3>);
// per-layer stacks over the token-emitting probe
STACK(20, cb::clamp<vf::probe<2, 1, int, float>>);
STACK(21, cb::backup<vf::probe<2, 3, float, double>>);
STACK(22, cb::affine<vf::probe<3, 1, float, float>>);
STACK(23, cb::shuffle<vf::probe<2, 1, size_t, float>, std::index_sequence<1, 0>>);
STACK(24, cb::covariant_cast<float, vf::probe<1, 2, size_t, double>>);
STACK(25, cb::linear<vf::probe<2, 2, size_t, float>>);
STACK(26, cb::nearest_neighbour<vf::probe<1, 1, size_t, float>>);
STACK(27, cb::affine<vf::probe<1, 1, double, float>>);
STACK(28, cb::clamp<vf::probe<2, 1, float, float>>);          // floating-point box: infinities / NaN payloads are legal bounds
STACK(29, cb::clamp<vf::probe<1, 2, double, double>>);
// cross-type partners (C07): same structure, other interpolator and/or storage width
STACK(30, cb::linear<cb::strided<cv::size2, cb::array<cv::float1>>>);            // vs 10
STACK(31, cb::nearest_neighbour<cb::strided<cv::size2, cb::array<cv::double1>>>);   // vs 10: widening
STACK(32, cb::linear<cb::strided<cv::size2, cb::array<cv::double1>>>);           // vs 10: interpolator + widening
STACK(33, cb::strided<cv::size2, cb::array<cv::float1>>);                        // no interpolator
STACK(34, cb::affine<cb::nearest_neighbour<cb::strided<cv::size2, cb::array<cv::double2>>>>);   // vs 4: interp + widening
STACK(35, cb::strided<cv::size3, cb::array<cv::double3>>);                       // vs 3
// incompatible partners (C08)
STACK(40, cb::strided<cv::size2, cb::array<cv::float3>>);                        // vs 3: dimensionality
STACK(41, cb::morton<cv::size3, cb::array<cv::float3>>);                         // vs 3: tag
STACK(42, cb::clamp<cb::strided<cv::size3, cb::array<cv::float3>>>);             // vs 3: nesting

