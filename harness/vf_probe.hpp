// The probe backend: stands for "whatever lies beneath a layer" (DESIGN.md 2.2, 3.C02).
// at(c) returns an uninterpreted function of the coordinate (per output component) and records the call.
#pragma once
#include "vf.h"
#include <cmath>
#include <covfie/core/concepts.hpp>
#include <covfie/core/parameter_pack.hpp>
#include <covfie/core/utility/binary_io.hpp>
#include <covfie/core/vector.hpp>
#include <iostream>
#include <type_traits>
#include <variant>

namespace vf {
template <class T> static inline T nondet()
{
    if constexpr (std::is_same_v<T, float>) return vf_nondet_f32();
    else if constexpr (std::is_same_v<T, double>) return vf_nondet_f64();
    else if constexpr (std::is_same_v<T, bool>) return vf_nondet_bool();
    else if constexpr (sizeof(T) == 1) return static_cast<T>(vf_nondet_u8());
    else if constexpr (sizeof(T) == 2) return static_cast<T>(vf_nondet_u16());
    else if constexpr (sizeof(T) == 4) return static_cast<T>(vf_nondet_u32());
    else return static_cast<T>(vf_nondet_u64());
}

template <class T> static inline bool is_nan(T x)
{
    if constexpr (std::is_floating_point_v<T>) return x != x;
    else return false;
}

// bit-exact equality of two scalars (floats compared as raw bits)
template <class T> static inline bool same_bits(T a, T b)
{
    if constexpr (std::is_same_v<T, float>) return vf_bits<uint32_t>(a) == vf_bits<uint32_t>(b);
    else if constexpr (std::is_same_v<T, double>) return vf_bits<uint64_t>(a) == vf_bits<uint64_t>(b);
    else return a == b;
}

// integer coordinates are keyed by value (sign-extended), floating ones by their value as double
template <class T> static inline uint64_t ikey(T x) { return static_cast<uint64_t>(static_cast<int64_t>(x)); }
template <> inline uint64_t ikey<unsigned long>(unsigned long x) { return x; }
template <> inline uint64_t ikey<unsigned int>(unsigned int x) { return x; }

template <class Tout, class Tin> static inline Tout uf(uint64_t fid, const Tin * c, size_t n, size_t comp)
{
    if constexpr (std::is_floating_point_v<Tin>) {
        double k[5] = {0, 0, 0, 0, 0};
        for (size_t i = 0; i < n; i++) k[i] = static_cast<double>(c[i]);
        if constexpr (std::is_same_v<Tout, float>) return vf_ufr_f32(fid, k[0], k[1], k[2], k[3], k[4], comp);
        else return static_cast<Tout>(vf_ufr_f64(fid, k[0], k[1], k[2], k[3], k[4], comp));
    } else {
        uint64_t k[5] = {0, 0, 0, 0, 0};
        for (size_t i = 0; i < n; i++) k[i] = ikey(c[i]);
        if constexpr (std::is_same_v<Tout, float>) return vf_uf_f32(fid, k[0], k[1], k[2], k[3], k[4], comp);
        else if constexpr (std::is_same_v<Tout, double>) return vf_uf_f64(fid, k[0], k[1], k[2], k[3], k[4], comp);
        else return static_cast<Tout>(vf_uf_u64(fid, k[0], k[1], k[2], k[3], k[4], comp));
    }
}

template <class Tin> static inline void note(const Tin * c, size_t n)
{
    if constexpr (std::is_floating_point_v<Tin>) {
        double k[5] = {0, 0, 0, 0, 0};
        for (size_t i = 0; i < n; i++) k[i] = static_cast<double>(c[i]);
        vf_probe_note_r(n, k[0], k[1], k[2], k[3], k[4]);
    } else {
        uint64_t k[5] = {0, 0, 0, 0, 0};
        for (size_t i = 0; i < n; i++) k[i] = ikey(c[i]);
        vf_probe_note(n, k[0], k[1], k[2], k[3], k[4]);
    }
}

// was the probe called exactly once, with exactly this coordinate?
template <class Tin> static inline bool called_once_with(const Tin * c, size_t n)
{
    if (vf_probe_calls() != 1) return false;
    bool ok = true;
    for (size_t i = 0; i < n; i++) {
        if constexpr (std::is_floating_point_v<Tin>) ok = ok && vf_probe_arg_r(0, i + 1) == static_cast<double>(c[i]);
        else ok = ok && vf_probe_arg(0, i + 1) == ikey(c[i]);
    }
    return ok;
}

template <size_t N, size_t M, class Tin, class Tout, uint64_t FID = 0>
struct probe {
    using this_t = probe;
    static constexpr bool is_initial = true;
    using contravariant_input_t = covfie::vector::array_vector_d<covfie::vector::vector_d<Tin, N>>;
    using covariant_output_t = covfie::vector::array_vector_d<covfie::vector::vector_d<Tout, M>>;
    using configuration_t = std::monostate;
    static constexpr uint32_t IO_MAGIC_HEADER = 0xAB01FFFF;
    struct owning_data_t {
        using parent_t = this_t;
        explicit owning_data_t() {}
        explicit owning_data_t(configuration_t) {}
        explicit owning_data_t(covfie::parameter_pack<configuration_t> &&) {}
        explicit owning_data_t(covfie::parameter_pack<owning_data_t> &&) {}
        configuration_t get_configuration() const { return {}; }
        // two-byte token so that an enclosing layer's serialiser can be checked compositionally
        static owning_data_t read_binary(std::istream & fs)
        {
            auto t = covfie::utility::read_binary<uint16_t>(fs);
            if (t != 0x5AA5) throw std::runtime_error("probe token");
            return owning_data_t();
        }
        static void write_binary(std::ostream & fs, const owning_data_t &)
        {
            uint16_t t = 0x5AA5;
            fs.write(reinterpret_cast<const char *>(&t), 2);
        }
    };
    struct non_owning_data_t {
        using parent_t = this_t;
        non_owning_data_t(const owning_data_t &) {}
        typename covariant_output_t::vector_t at(typename contravariant_input_t::vector_t c) const
        {
            Tin k[N];
            for (size_t i = 0; i < N; i++) k[i] = c[i];
            note<Tin>(k, N);
            typename covariant_output_t::vector_t r;
            for (size_t j = 0; j < M; j++) r[j] = uf<Tout, Tin>(FID, k, N, j);
            return r;
        }
    };
};
}
