// Generic handling of a stack's owning data for the IO harnesses (C06/C07/C08/C12):
//   blank<B>(bound)   - build owning data of stack B (array length chosen by the engine in 0..bound)
//   sym(o)            - overwrite every configuration value and stored scalar with fresh symbolic bits
//   same(a, b)        - bit-identical configuration at every layer and bit-identical stored values at every index
//   spec_write(o, os) - INDEPENDENT reference serialiser written from the pinned revision's byte grammar (DESIGN.md app. C)
#pragma once
#include "vf_probe.hpp"
#include <covfie/core/backend/primitive/array.hpp>
#include <covfie/core/backend/primitive/constant.hpp>
#include <covfie/core/backend/primitive/identity.hpp>
#include <covfie/core/backend/transformer/affine.hpp>
#include <covfie/core/backend/transformer/backup.hpp>
#include <covfie/core/backend/transformer/clamp.hpp>
#include <covfie/core/backend/transformer/covariant_cast.hpp>
#include <covfie/core/backend/transformer/dereference.hpp>
#include <covfie/core/backend/transformer/hilbert.hpp>
#include <covfie/core/backend/transformer/linear.hpp>
#include <covfie/core/backend/transformer/morton.hpp>
#include <covfie/core/backend/transformer/nearest_neighbour.hpp>
#include <covfie/core/backend/transformer/shuffle.hpp>
#include <covfie/core/backend/transformer/strided.hpp>
#include <covfie/core/field.hpp>
#include <ostream>

namespace vf {
namespace cb = covfie::backend;

// ---- layer kinds
enum kind { K_ARRAY, K_CONSTANT, K_IDENTITY, K_PROBE, K_STRIDED, K_MORTON, K_HILBERT, K_CLAMP, K_BACKUP, K_AFFINE, K_PASS };
template <class B> struct kind_of { static constexpr kind value = K_PASS; };   // linear, nearest, shuffle, cast, dereference
template <class V, class I> struct kind_of<cb::array<V, I>> { static constexpr kind value = K_ARRAY; };
template <class A, class B> struct kind_of<cb::constant<A, B>> { static constexpr kind value = K_CONSTANT; };
template <class V> struct kind_of<cb::identity<V>> { static constexpr kind value = K_IDENTITY; };
template <size_t N, size_t M, class A, class B, uint64_t F> struct kind_of<probe<N, M, A, B, F>> { static constexpr kind value = K_PROBE; };
template <class V, class S> struct kind_of<cb::strided<V, S>> { static constexpr kind value = K_STRIDED; };
template <class V, class S, bool U> struct kind_of<cb::morton<V, S, U>> { static constexpr kind value = K_MORTON; };
template <class V, class S> struct kind_of<cb::hilbert<V, S>> { static constexpr kind value = K_HILBERT; };
template <class S> struct kind_of<cb::clamp<S>> { static constexpr kind value = K_CLAMP; };
template <class S> struct kind_of<cb::backup<S>> { static constexpr kind value = K_BACKUP; };
template <class S> struct kind_of<cb::affine<S>> { static constexpr kind value = K_AFFINE; };

template <class T> static inline T fresh_bits()
{
    if constexpr (sizeof(T) == 4 && std::is_floating_point_v<T>) return vf_bits<T>(vf_nondet_u32());
    else if constexpr (sizeof(T) == 8 && std::is_floating_point_v<T>) return vf_bits<T>(vf_nondet_u64());
    else return nondet<T>();
}

// ---- blank
static size_t g_exact_len = 0;      // when non-zero: every array gets exactly g_exact_len - 1 elements (long payloads)
template <class B> static typename B::owning_data_t blank(size_t bound)
{
    constexpr kind k = kind_of<B>::value;
    using O = typename B::owning_data_t;
    if constexpr (k == K_ARRAY) return O(g_exact_len ? g_exact_len - 1 : vf_nondet_range(0, bound));
    else if constexpr (k == K_CONSTANT || k == K_IDENTITY || k == K_PROBE) return O();
    else return O(typename B::configuration_t{}, blank<typename B::backend_t>(bound));
}

// ---- blank_c: like blank, but the layout layers get small consistent extents (1..bound per axis) and the array below them
//      exactly the number of cells the library itself would allocate for those extents
static bool g_keep_sizes = false;
template <class B> static typename B::owning_data_t blank_c(size_t bound)
{
    constexpr kind k = kind_of<B>::value;
    using O = typename B::owning_data_t;
    if constexpr (k == K_STRIDED || k == K_MORTON || k == K_HILBERT) {
        constexpr size_t N = B::contravariant_input_t::dimensions;
        typename B::configuration_t s;
        size_t prod = 1, mx = 0;
        for (size_t i = 0; i < N; i++) { s[i] = vf_nondet_range(1, bound); prod *= s[i]; mx = s[i] > mx ? s[i] : mx; }
        size_t cells = prod;
        if constexpr (k != K_STRIDED) cells = covfie::utility::ipow(covfie::utility::round_pow2(mx), N);
        g_keep_sizes = true;
        return O(s, typename B::backend_t::owning_data_t(cells));
    } else if constexpr (k == K_ARRAY) {
        return O(vf_nondet_range(0, bound));
    } else if constexpr (k == K_CONSTANT || k == K_IDENTITY || k == K_PROBE) {
        return O();
    } else {
        return O(typename B::configuration_t{}, blank_c<typename B::backend_t>(bound));
    }
}

// ---- sym
template <class A> static void sym_arr(A & a)
{
    for (size_t i = 0; i < a.size(); i++) a[i] = fresh_bits<typename A::value_type>();
}
template <class O> static void sym(O & o)
{
    using B = typename O::parent_t;
    constexpr kind k = kind_of<B>::value;
    if constexpr (k == K_ARRAY) {
        for (size_t i = 0; i < o.m_size; i++) sym_arr(o.m_ptr[i]);
    } else if constexpr (k == K_CONSTANT) {
        sym_arr(o.m_value);
    } else if constexpr (k == K_IDENTITY || k == K_PROBE) {
    } else if constexpr (k == K_STRIDED || k == K_MORTON || k == K_HILBERT) {
        if (!g_keep_sizes) sym_arr(o.m_sizes);
        sym(o.m_storage);
    } else if constexpr (k == K_CLAMP) {
        sym_arr(o.m_min); sym_arr(o.m_max); sym(o.m_backend);
    } else if constexpr (k == K_BACKUP) {
        sym_arr(o.m_min); sym_arr(o.m_max); sym_arr(o.m_default); sym(o.m_backend);
    } else if constexpr (k == K_AFFINE) {
        constexpr size_t N = B::contravariant_input_t::dimensions;
        for (size_t i = 0; i < N; i++)
            for (size_t j = 0; j < N + 1; j++) o.m_transform(i, j) = fresh_bits<typename B::contravariant_input_t::scalar_t>();
        sym(o.m_backend);
    } else {
        sym(o.m_backend);
    }
}

// ---- same: two stacks of equal structure (interpolators are interchangeable, storage scalars may differ in width)
template <class A, class B> static bool same_arr(const A & a, const B & b)
{
    using Ta = typename A::value_type;
    using Tb = typename B::value_type;
    bool r = true;
    for (size_t i = 0; i < a.size(); i++) {
        if constexpr (std::is_same_v<Ta, Tb>) r = r && same_bits<Ta>(a[i], b[i]);
        else r = r && same_bits<Tb>(static_cast<Tb>(a[i]), b[i]);     // widening is exact; narrowing: see narrow_ok
    }
    return r;
}
template <class O1, class O2> static bool same(const O1 & a, const O2 & b)
{
    using B1 = typename O1::parent_t;
    using B2 = typename O2::parent_t;
    constexpr kind k = kind_of<B1>::value;
    // layers without configuration and without bytes on disk (interpolators, shuffle, cast, dereference) are skipped
    if constexpr (k == K_PASS) {
        return same(a.m_backend, b);
    } else if constexpr (kind_of<B2>::value == K_PASS) {
        return same(a, b.m_backend);
    } else if constexpr (k != kind_of<B2>::value) {
        static_assert(k == kind_of<B2>::value, "stacks differ in structure");
        return false;
    } else if constexpr (k == K_ARRAY) {
        if (a.m_size != b.m_size) return false;
        bool r = true;
        for (size_t i = 0; i < a.m_size; i++) r = r && same_arr(a.m_ptr[i], b.m_ptr[i]);
        return r;
    } else if constexpr (k == K_CONSTANT) {
        return same_arr(a.m_value, b.m_value);
    } else if constexpr (k == K_IDENTITY || k == K_PROBE) {
        return true;
    } else if constexpr (k == K_STRIDED || k == K_MORTON || k == K_HILBERT) {
        return same_arr(a.m_sizes, b.m_sizes) && same(a.m_storage, b.m_storage);
    } else if constexpr (k == K_CLAMP) {
        return same_arr(a.m_min, b.m_min) && same_arr(a.m_max, b.m_max) && same(a.m_backend, b.m_backend);
    } else if constexpr (k == K_BACKUP) {
        return same_arr(a.m_min, b.m_min) && same_arr(a.m_max, b.m_max) && same_arr(a.m_default, b.m_default) && same(a.m_backend, b.m_backend);
    } else if constexpr (k == K_AFFINE) {
        constexpr size_t N = B1::contravariant_input_t::dimensions;
        bool r = true;
        for (size_t i = 0; i < N; i++)
            for (size_t j = 0; j < N + 1; j++) r = r && same_bits(a.m_transform(i, j), b.m_transform(i, j));
        return r && same(a.m_backend, b.m_backend);
    } else {
        return same(a.m_backend, b.m_backend);
    }
}

// behavioural equality of the layout layer of two stacks of the same type: the lookups of both agree bit for bit at EVERY lattice
// coordinate inside the reported extents (state that the accessors do not report - a cached member - shows here)
template <class O> static bool same_lookup(const O & a, const O & b)
{
    using B = typename O::parent_t;
    constexpr kind k = kind_of<B>::value;
    if constexpr (k == K_STRIDED || k == K_MORTON || k == K_HILBERT) {
        constexpr size_t N = B::contravariant_input_t::dimensions;
        typename B::non_owning_data_t va(a), vb(b);
        auto s = a.get_configuration();
        size_t idx[N];
        for (size_t i = 0; i < N; i++) { idx[i] = 0; if (s[i] == 0) return true; }
        bool ok = true;
        for (;;) {
            typename B::contravariant_input_t::vector_t c;
            for (size_t i = 0; i < N; i++) c[i] = static_cast<typename B::contravariant_input_t::scalar_t>(idx[i]);
            ok = ok && same_arr(va.at(c), vb.at(c));
            size_t d = N;
            while (d > 0) { d--; if (++idx[d] < s[d]) break; idx[d] = 0; if (d == 0) return ok; }
        }
    } else if constexpr (k == K_ARRAY || k == K_CONSTANT || k == K_IDENTITY || k == K_PROBE) {
        return true;
    } else {
        return same_lookup(a.get_backend(), b.get_backend());
    }
}

// does the stack end in array storage?
template <class B> static constexpr bool has_array()
{
    constexpr kind k = kind_of<B>::value;
    if constexpr (k == K_ARRAY) return true;
    else if constexpr (k == K_CONSTANT || k == K_IDENTITY || k == K_PROBE) return false;
    else return has_array<typename B::backend_t>();
}

// innermost array of a stack
template <class O> static const auto & array_of(const O & o)
{
    using B = typename O::parent_t;
    constexpr kind k = kind_of<B>::value;
    if constexpr (k == K_ARRAY) return o;
    else if constexpr (k == K_STRIDED || k == K_MORTON || k == K_HILBERT) return array_of(o.m_storage);
    else return array_of(o.m_backend);
}

// ---- reference serialiser (pinned byte grammar). Deliberately shares no code with the library's writers.
static inline void put_u32(std::ostream & os, uint32_t v) { os.write(reinterpret_cast<const char *>(&v), 4); }
static inline void put_u64(std::ostream & os, uint64_t v) { os.write(reinterpret_cast<const char *>(&v), 8); }
template <class T> static inline void put_scalar(std::ostream & os, T v) { os.write(reinterpret_cast<const char *>(&v), sizeof(T)); }
// positions of every header/footer/tag/width word of the last spec_write (for C08's altered-word obligation)
static size_t g_words[128];
static int g_wkind[128];      // 0 magic/tag word, 1 float-width word
static size_t g_nwords = 0;
static inline void mark(std::ostream & os, int kind = 0) { if (g_nwords < 128) { g_wkind[g_nwords] = kind; g_words[g_nwords++] = vf_stream_len(&os); } }
static inline void hdr(std::ostream & os, uint32_t tag) { mark(os); put_u32(os, 0xC04F1EABu); mark(os); put_u32(os, tag); }
static inline void ftr(std::ostream & os, uint32_t tag) { mark(os); put_u32(os, 0xC04F1E70u); mark(os); put_u32(os, tag + 0x20000000u); }
template <class A> static void put_arr(std::ostream & os, const A & a)
{
    for (size_t i = 0; i < a.size(); i++) put_scalar(os, a[i]);
}

template <class O> static void spec_body(const O & o, std::ostream & os)
{
    using B = typename O::parent_t;
    constexpr kind k = kind_of<B>::value;
    if constexpr (k == K_ARRAY) {
        hdr(os, 0xAB010000u);
        using S = typename std::decay_t<decltype(o.m_ptr[0])>::value_type;
        mark(os, 1);
        put_u32(os, sizeof(S));
        put_u64(os, o.m_size);
        for (size_t i = 0; i < o.m_size; i++) put_arr(os, o.m_ptr[i]);
        ftr(os, 0xAB010000u);
    } else if constexpr (k == K_CONSTANT) {
        hdr(os, 0xAB010001u); put_arr(os, o.m_value); ftr(os, 0xAB010001u);
    } else if constexpr (k == K_IDENTITY) {
        hdr(os, 0xAB010002u); ftr(os, 0xAB010002u);
    } else if constexpr (k == K_PROBE) {
        uint16_t t = 0x5AA5; os.write(reinterpret_cast<const char *>(&t), 2);
    } else if constexpr (k == K_STRIDED || k == K_MORTON || k == K_HILBERT) {
        constexpr uint32_t tag = k == K_STRIDED ? 0xAB020010u : k == K_MORTON ? 0xAB020006u : 0xAB020004u;
        hdr(os, tag);
        for (size_t i = 0; i < o.m_sizes.size(); i++) put_u64(os, o.m_sizes[i]);
        spec_body(o.m_storage, os);
        ftr(os, tag);
    } else if constexpr (k == K_CLAMP) {
        hdr(os, 0xAB020002u); put_arr(os, o.m_min); put_arr(os, o.m_max); spec_body(o.m_backend, os); ftr(os, 0xAB020002u);
    } else if constexpr (k == K_BACKUP) {
        hdr(os, 0xAB020001u); put_arr(os, o.m_min); put_arr(os, o.m_max); put_arr(os, o.m_default); spec_body(o.m_backend, os); ftr(os, 0xAB020001u);
    } else if constexpr (k == K_AFFINE) {
        constexpr size_t N = B::contravariant_input_t::dimensions;
        hdr(os, 0xAB020000u);
        for (size_t i = 0; i < N; i++)
            for (size_t j = 0; j < N + 1; j++) put_scalar(os, o.m_transform(i, j));
        spec_body(o.m_backend, os);
        ftr(os, 0xAB020000u);
    } else {
        spec_body(o.m_backend, os);     // interpolators, shuffle, cast, dereference: no bytes of their own
    }
}
template <class O> static void spec_write(const O & o, std::ostream & os)
{
    g_nwords = 0;
    hdr(os, 0xAB000000u);
    spec_body(o, os);
    ftr(os, 0xAB000000u);
}

// byte-for-byte comparison of two engine-owned output streams
static inline bool same_stream(std::ostream * a, std::ostream * b)
{
    size_t n = vf_stream_len(a);
    if (n != vf_stream_len(b)) return false;
    bool r = true;
    for (size_t i = 0; i < n; i++) r = r && vf_stream_byte(a, i) == vf_stream_byte(b, i);
    return r;
}
}
