#!/bin/sh
# verifies the toolchain only; nothing is downloaded or pre-built
set -e
command -v clang++-14 >/dev/null
command -v g++ >/dev/null
command -v python3-vt >/dev/null
python3-vt -c "import z3; print('z3', z3.get_version_string())"
command -v cvc5 >/dev/null && echo "cvc5 ok"
echo setup ok
