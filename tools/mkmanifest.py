#!/usr/bin/env python3
"""Regenerates /verif/MANIFEST.json from the table below (kept valid at all times)."""
import json, os
HERE = os.path.dirname(os.path.dirname(os.path.abspath(__file__)))
props = [json.loads(l) for l in open(os.path.join(HERE, 'properties.jsonl'))]

NOTE = ('Trusted base: clang-14 lowering of the headers (typename fix-its only), the symbolic executor and its '
        'external models (engine/models.py), z3 5.1.0; bridged to the g++ build by native differential runs and by '
        'replaying every counterexample before it is reported. Bounds and what lies outside them are in the evidence file.')

CLAIMED = {
    'C18': ('bounded symbolic execution of clang LLVM IR of round_pow2/ipow + z3 (bit-vectors; bit-blast/SAT pipeline for multiplication chains)',
            'Every i in [1,2^(w-1)] at all four unsigned widths for round_pow2 (loop bound checked, not assumed); ipow decided '
            'for all (b,e) against the binary-expansion product (8-32 bit quick, 64 bit thorough), against the naive product for '
            'every exponent 0..64 with symbolic base, ring recurrences at 8/16 bit, all pairs at 8 bit. Bounded model checking of '
            'the real instructions: the verdict covers every value inside the bound.', '3.C18'),
}

CLAIMED['C01'] = ('bounded symbolic execution of clang LLVM IR of the strided/morton/hilbert lookups + z3 (unbounded-integer theory with explicit wrap for row-major, bit-vectors for the curves)',
    'In-bounds, injectivity and exact address of the index map for every extent vector (row-major: extents unbounded below PTRDIFF_MAX; curves: up to the stated side) and every in-range coordinate, in one solver query per obligation; plus the public API end to end (construct, fill, write and read at symbolic coordinates) on small grids with all stored bit patterns. Counterexamples are replayed on the g++ build before being reported.', '3.C01')
CLAIMED['C14'] = ('bounded symbolic execution of clang LLVM IR of the index functions + z3 against functional oracles',
    'Row-major position formula for all extents; Morton pdep == portable == reference bit interleave for all coordinates below 2^floor(64/N), N=1..4; Hilbert bijection/origin/adjacency on 2^k squares, k<=6 quick, <=8 thorough.', '3.C14')

CLAIMED['C02'] = ('bounded symbolic execution of clang LLVM IR of each layer over an uninterpreted-function probe backend + z3 (bit-vectors, IEEE FP theory)',
    'Per-layer functional obligations for every coordinate and configuration value with N and M independent in 1..4: the layer queries the (uninterpreted) backend exactly at its one-line coordinate map and returns its one-line value map, bit for bit; because the backend is uninterpreted the result cannot depend on what lies beneath, which gives composition by induction (stated). In addition every wrapper is checked directly above every shipped layer kind over real array storage (pairwise adjacency), and the vector type itself (constructors, access, iteration) is a primitive obligation.', '3.C02')
CLAIMED['C10'] = ('bounded symbolic execution of clang LLVM IR of clamp over the probe backend + z3 (bit-vectors, IEEE FP theory)',
    'For all coordinates of int/unsigned/size_t/float/double (extremes and infinities included, NaN excluded) and all boxes lo<=hi: one backend query at the component-wise clamp, its value returned; N,M in 1..4.', '3.C10')
CLAIMED['C11'] = ('bounded symbolic execution of clang LLVM IR of backup over the probe backend + z3',
    'For all coordinates, boxes and defaults: default returned bit for bit with zero backend queries iff some component is outside the closed box, else exactly one query at the coordinate; N,M in 1..4, int/size_t/float/double coordinates.', '3.C11')
CLAIMED['C04'] = ('bounded symbolic execution of clang LLVM IR of nearest_neighbour + z3 IEEE floating-point theory (bit-precise)',
    'For every float (|x|<2^23) and double (|x|<2^52) coordinate in (-0.5, E-0.5) the delegated lattice point is within 1/2 per component, decided bit-precisely including one ulp either side of every half-integer; N=1..4.', '3.C04')

CLAIMED['C03'] = ('bounded symbolic execution of clang LLVM IR of linear<probe> + z3: exact-reading (real arithmetic) identity with own polynomial normal form, IEEE FP theory for cell choice and lattice exactness',
    'Identity of the exact reading of the real instructions with the N-linear interpolant for all integer cells, all real fractional parts and all real lattice values (uninterpreted), N<=4 quick/5 thorough, M independent; exactly the 2^N corners are queried; hull clause N<=2; cell choice and lattice exactness bit-precise. The rounding clause is an operation-count bound reported from the IR, not solved.', '3.C03')
CLAIMED['C09'] = ('bounded symbolic execution of clang LLVM IR of algebra::affine and the affine layer + z3 (exact-reading real arithmetic, polynomial normal form; bit-vectors for the factories)',
    'A*x == Ax+t, (A*B)*v == A*(B*v), product matrix, chains of up to 4 transforms, textbook factories, and the layer querying its backend once at Ax+t: for all real matrices and vectors, N=1..4, float and double.', '3.C09')

CLAIMED['C19'] = ('bounded symbolic execution of clang LLVM IR of nd_map (std::function closures, heap, indirect calls executed) + z3',
    'For every extent vector within the bound (extents 0..3, dimensionality 1..5 in the thorough tier) and an unconstrained symbolic probe tuple: the callback sees the tuple exactly once iff it lies inside the box, the invocation count is the product of the extents, closures are released.', '3.C19')
CLAIMED['C17'] = ('bounded symbolic execution of clang LLVM IR of parameter packs, accessors and constructors + z3',
    'Positional helper at depth 1..10 over layers sharing one configuration type, for all configuration values; depth-5 stack read back layer by layer and rebuilt from the reported configurations and storage, equal at a symbolic coordinate.', '3.C17')
CLAIMED['C05'] = ('bounded symbolic execution of clang LLVM IR of the converting constructors (heap, nd_map closures) + z3',
    'All ordered pairs of the four storage orders, every extent vector within the bound, all stored bit patterns, symbolic probe coordinate: same configuration and values, source unchanged, own storage, round trip, no leak; whole-stack conversions across interpolators; host array to CUDA device array under a host shim of the CUDA runtime (reduced assurance).', '3.C05')

CLAIMED['C06'] = ('bounded symbolic execution of clang LLVM IR of dump/load over a modelled byte stream + z3 (bit-vectors)',
    'For every serialisable layer (catalogue of 13 stacks plus 8 per-layer stacks over a token probe), all configuration values and stored bit patterns, array length up to the bound: load(dump(f)) is bit-identical, the reader consumes exactly the written bytes, and the re-dump is byte-identical.', '3.C06')
CLAIMED['C07'] = ('bounded symbolic execution of clang LLVM IR of dump/load + z3, differential against an independent reference serialiser of the pinned byte grammar; IEEE FP theory for narrowing',
    'dump(f) equals the pinned grammar byte for byte and grammar files load back to the same state (so a consistent writer+reader change is caught); cross-type loads across interpolators and float/double storage: widening exact, narrowing round-to-nearest (independent neighbour oracle in the thorough tier).', '3.C07')
CLAIMED['C08'] = ('bounded symbolic execution of clang LLVM IR of the loaders over a modelled stream with symbolic truncation point, symbolic replaced word and symbolic failure index + z3; uninitialised-data dependence queries',
    'Every proper prefix of every dump in the C06 state space, every altered header/footer/tag/width word with any replacement value, incompatible stack pairs, and a stream failing from the n-th read for every n: an exception is raised on every feasible path; no field, abort, memory error, hang or decision on uninitialised bytes. NDEBUG and assertion-enabled IR.', '3.C08')

CLAIMED['C12'] = ('bounded symbolic execution of clang LLVM IR of the special members, converting constructors and IO with a heap audit + z3; inductive single steps from an arbitrary API-built pre-state plus bounded histories',
    'One operation (copy/move construct/assign incl. self-assignment, write, destroy, convert, dump/load) with symbolic slot arguments from every pre-state over 2-3 slots (empty/live/moved-from, extents and contents symbolic): all live fields equal their plain-array model, buffers are distinct, nothing leaks, nothing is freed twice or used after free; histories of length 2-3 with symbolic operation choice as a direct tie.', '3.C12')

CLAIMED['C15'] = ('bounded symbolic execution of UBSan-trap-instrumented clang LLVM IR (-O1 NDEBUG and -O0 with assertions) with a memory-safety model + z3; product execution of the -O2 NDEBUG and -O0 IR for build equivalence',
    'For the kernels and input domains of the other properties: no UBSan trap, unreachable, library assertion, abort or memory-model violation (bounds, lifetime, double free, uninitialised decisions) is reachable, and the optimised NDEBUG build and the assertion-enabled build agree on every observed value for all inputs on which both path conditions hold. Statement about clang-14 IR; counterexamples are replayed on g++ (and clang UBSan) builds.', '3.C15')
CLAIMED['C16'] = ('bounded symbolic execution of clang LLVM IR of field_view::at with a footprint recorder (stores to shared objects, mutable globals, thread_locals, atomics) + z3; injectivity queries of C01 for disjoint writers',
    'For every storage order x interpolator x N<=3 and every in-domain coordinate the lookup performs no store to the view, field, buffer or any non-stack object and touches no mutable global state, so no two lookups have a conflicting access: race freedom and determinism for any number of threads and any schedule by a schedule-independent argument; disjoint writers by index injectivity for all extents. Counterexamples are confirmed natively under ThreadSanitizer.', '3.C16')
CLAIMED['C20'] = ('own symbolic evaluator of the template metaprogram (rules extracted from clang AST on every run) + z3 bit-vectors at every leaf; g++ static_assert instantiation of witnesses and counterexamples',
    'Sorting yields an ascending rearrangement for every sequence of up to 4 (quick) / 5 (thorough) arbitrary 64-bit values, and the permutation predicate equals multiset equality for length pairs up to (3,3) / (4,4): decided for all values, not an alphabet.', '3.C20')

NA = {
    'C13': 'decided by the C++ type checker (overload resolution, constraints, template instantiation): there is no IR to execute and no SMT encoding of C++ semantic analysis within reach; enumerating and compiling stacks would be a different technique (DESIGN.md section 5)',
}

m = {
    'version': 1,
    'setup_cmd': './setup.sh',
    'hooks': {'guard': 'COVFIE_VERIF_HOOKS', 'enable': 'no hooks: harnesses under /verif/harness use the public API only',
              'baseline_off_cmd': 'cmake --build /repo/_build && /repo/_build/tests/core/test_core && /repo/_build/tests/cpu/test_cpu',
              'source_commits': [], 'add_only': True},
    'engines': [{'name': 'symex', 'path': 'engine/', 'serves_properties': sorted(CLAIMED),
                 'kind_free_text': 'own symbolic executor for clang-14 LLVM IR of the real headers (regenerated from /repo on every run) with z3 as the deciding solver; number modes BITS (bit-vectors, IEEE FP theory), INT/REAL (unbounded ints with explicit wrap, exact reals)'}],
    'checks': [],
    'notes': 'see DESIGN.md; exit codes: 0 held (KNOWN-FINDING lines for listed findings), 1 VIOLATION (replayed natively), 2 INCONCLUSIVE (machinery could not decide; never on the unchanged tree)',
    'not_applicable': [],
}
for p in props:
    pid = p['id']
    if pid in CLAIMED:
        tech, text, ref = CLAIMED[pid]
        m['checks'].append({
            'property_id': pid, 'quick_cmd': f'./check {pid} --tier quick', 'thorough_cmd': f'./check {pid} --tier thorough',
            'evidence_file': f'/verif/evidence/{pid}.json', 'replay_cmd_template': f'./check {pid} --replay {{path}}',
            'engine': 'symex', 'level_claimed': {'category': 'model_checking', 'text': text, 'design_ref': ref},
            'level_note': NOTE, 'technique': tech})
    else:
        m['not_applicable'].append({'property_id': pid, 'reason': NA.get(pid, 'check not built yet (work in progress, see DESIGN.md section 7)')})
json.dump(m, open(os.path.join(HERE, 'MANIFEST.json'), 'w'), indent=1)
print('claimed', sorted(CLAIMED), 'n/a', [x['property_id'] for x in m['not_applicable']])
