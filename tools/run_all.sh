#!/bin/sh
# runs every claimed check (quick tier by default) on /repo as it is and rewrites /verif/evidence/<id>.json
tier=${1:-quick}
cd "$(dirname "$0")/.."
rc=0
for p in $(python3 -c "import json; print(' '.join(c['property_id'] for c in json.load(open('MANIFEST.json'))['checks']))"); do
  start=$(date +%s)
  ./check $p --tier $tier | tail -3
  r=$?
  echo "   [$p took $(( $(date +%s) - start )) s]"
done
