#!/usr/bin/env python3
"""Confirm a seeded change and run the checks against it.

  tools/seed_eval.py <seed-id> <patch.diff> <demo.cpp> <property> [--checks C01,C15,...] [--tier quick]

1. scratch worktree of /repo HEAD (outside /repo and /verif), patch applied
2. the unedited test suite builds and passes with the change (93 + 6)
3. the demonstration fails with the change and passes without it
4. the named checks run against the patched tree (VF_REPO points the checks at the scratch worktree; /repo is untouched)
5. worktree and build output removed; result written to /verif/seeded/<seed-id>/meta.json
"""
import sys, os, subprocess, json, shutil, tempfile, time, argparse

VERIF = os.path.dirname(os.path.dirname(os.path.abspath(__file__)))


def sh(cmd, **kw):
    return subprocess.run(cmd, shell=isinstance(cmd, str), stdout=subprocess.PIPE, stderr=subprocess.STDOUT, text=True, **kw)


def main():
    ap = argparse.ArgumentParser()
    ap.add_argument('seed'); ap.add_argument('patch'); ap.add_argument('demo'); ap.add_argument('prop')
    ap.add_argument('--checks', default=None); ap.add_argument('--tier', default='quick')
    ap.add_argument('--needs', default=''); ap.add_argument('--idea', default='')
    a = ap.parse_args()
    out = os.path.join(VERIF, 'seeded', a.seed)
    os.makedirs(out, exist_ok=True)
    if os.path.abspath(a.patch) != os.path.join(out, 'patch.diff'):
        shutil.copy(a.patch, os.path.join(out, 'patch.diff'))
    if os.path.abspath(a.demo) != os.path.join(out, 'demo.cpp'):
        shutil.copy(a.demo, os.path.join(out, 'demo.cpp'))
    wt = tempfile.mkdtemp(prefix='seedeval.')
    os.rmdir(wt)
    meta = {'seed': a.seed, 'property': a.prop, 'needs_to_manifest': a.needs, 'idea': a.idea, 'ran': []}
    try:
        r = sh(['git', '-C', '/repo', 'worktree', 'add', '-q', wt, 'HEAD'])
        assert r.returncode == 0, r.stdout
        base = sh(['git', '-C', '/repo', 'rev-parse', '--short', 'HEAD']).stdout.strip()
        meta['repo_head'] = base
        demo = os.path.join(out, 'demo.cpp')
        inc = f'-I{wt}/lib/core -I{wt}/lib/cpu'
        # demo on the unchanged tree
        os.environ['COVFIE_ROOT'] = wt      # demonstrations that rebuild themselves find the tree here
        r0 = sh(f'g++ -std=c++20 -O2 {inc} {demo} -o {wt}/demo_clean && {wt}/demo_clean', timeout=600)
        meta['demo_without_change'] = {'rc': r0.returncode, 'tail': r0.stdout[-300:]}
        r = sh(['git', '-C', wt, 'apply', os.path.join(out, 'patch.diff')])
        assert r.returncode == 0, 'patch does not apply: ' + r.stdout
        meta['ran'].append('git apply patch.diff (scratch worktree)')
        b = sh(f'cd {wt} && cmake -G Ninja -B _build -DCOVFIE_BUILD_TESTS=ON -DCOVFIE_PLATFORM_CPU=ON -DCMAKE_BUILD_TYPE=RelWithDebInfo '
               f'-DGTest_DIR=/root/miniconda/lib/cmake/GTest >/dev/null && cmake --build _build 2>&1 | tail -3', timeout=1800)
        t1 = sh(f'{wt}/_build/tests/core/test_core | tail -1', timeout=600)
        t2 = sh(f'{wt}/_build/tests/cpu/test_cpu | tail -1', timeout=600)
        meta['suite_with_change'] = {'build_tail': b.stdout[-200:], 'core': t1.stdout.strip(), 'cpu': t2.stdout.strip()}
        meta['suite_passes'] = ('PASSED  ] 93' in t1.stdout) and ('PASSED  ] 6' in t2.stdout)
        r1 = sh(f'g++ -std=c++20 -O2 {inc} {demo} -o {wt}/demo_patched && {wt}/demo_patched', timeout=600)
        meta['demo_with_change'] = {'rc': r1.returncode, 'tail': r1.stdout[-300:]}
        meta['confirmed'] = bool(meta['suite_passes'] and r0.returncode == 0 and r1.returncode != 0)
        checks = (a.checks.split(',') if a.checks else [a.prop])
        meta['checks'] = {}
        env = dict(os.environ, VF_REPO=wt, VERIF_TIER=a.tier)
        # a check run rewrites evidence files: seed evaluations write theirs to a private directory (concurrent evaluations do not
        # disturb each other or the committed unchanged-tree evidence)
        save = tempfile.mkdtemp(prefix='evseed.')
        env['VF_EVIDENCE_DIR'] = save
        for c in checks:
            t = time.time()
            r = sh([os.path.join(VERIF, 'check'), c, '--tier', a.tier], env=env, timeout=7200)
            lines = [l for l in r.stdout.splitlines() if l.startswith(('VIOLATION', 'INCONCLUSIVE', 'OK', 'KNOWN-FINDING', '  unit='))]
            meta['checks'][c] = {'rc': r.returncode, 'wall_s': round(time.time() - t, 1), 'detected': r.returncode == 1,
                                 'lines': lines[:12]}
            print(c, 'rc', r.returncode, 'detected' if r.returncode == 1 else '', lines[:3], flush=True)
        shutil.rmtree(save, ignore_errors=True)
        meta['ran'] += ['unedited suite built and run in the scratch worktree', 'demo compiled and run with and without the change',
                        f'./check <id> --tier {a.tier} with VF_REPO=<scratch worktree> for ' + ','.join(checks)]
    finally:
        sh(['git', '-C', '/repo', 'worktree', 'remove', '--force', wt])
        shutil.rmtree(wt, ignore_errors=True)
    json.dump(meta, open(os.path.join(out, 'meta.json'), 'w'), indent=1)
    print(json.dumps({k: meta[k] for k in ('confirmed', 'suite_passes') if k in meta}), {c: v['rc'] for c, v in meta.get('checks', {}).items()})


if __name__ == '__main__':
    main()
