#!/usr/bin/env python3
"""Markdown table of the seeded changes and which checks catch them (from /verif/seeded/*/meta.json)."""
import json, glob, os
rows = []
for f in sorted(glob.glob(os.path.join(os.path.dirname(os.path.dirname(os.path.abspath(__file__))), 'seeded', '*', 'meta.json'))):
    m = json.load(open(f))
    det = [c for c, v in m.get('checks', {}).items() if v['detected']]
    miss = [f"{c} (rc {v['rc']})" for c, v in m.get('checks', {}).items() if not v['detected']]
    rows.append((m['seed'], m.get('idea', ''), m.get('needs_to_manifest', ''), 'yes' if m.get('confirmed') else 'NO',
                 ', '.join(det) or '-', ', '.join(miss) or '-'))
print('| seed | change | needs to manifest | confirmed | caught by | not caught by |')
print('|---|---|---|---|---|---|')
for r in rows:
    print('| ' + ' | '.join(x.replace('|', '/') for x in r) + ' |')
